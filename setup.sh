#!/bin/sh
# Build the overlay venv used by every check (offline, from the wheelhouse).
set -e
cd "$(dirname "$0")"
if [ ! -x .venv/bin/python ] || ! .venv/bin/python -c "import z3, numpy, jsonschema" 2>/dev/null; then
  rm -rf .venv
  /venv/bin/python -m venv .venv
  SP=$(.venv/bin/python -c "import site; print(site.getsitepackages()[0])")
  echo "import site; site.addsitedir('/venv/lib/python3.12/site-packages')" > "$SP/base.pth"
  .venv/bin/pip install -q --no-index --find-links /opt/veriftools/wheels z3-solver cvc5 jsonschema
fi
.venv/bin/python -c "import z3, numpy, pyttb; print('setup ok: z3', z3.get_version_string(), 'pyttb from', pyttb.__file__)"
