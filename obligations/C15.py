"""C15 -- symmetrisation averages over mode permutations; the symmetry test is exact."""
import itertools

import numpy as np
import pyttb as ttb
from symx.runner import ob
from symx import oracles as O
from symx.core import SymBool


def _group_perms(N, grps):
    """all mode permutations that permute modes within each group"""
    per_group = [list(itertools.permutations(g)) for g in grps]
    out = []
    for combo in itertools.product(*per_group):
        p = list(range(N))
        for g, pg in zip(grps, combo):
            for a, b in zip(g, pg):
                p[a] = b
        out.append(tuple(p))
    return out


def ref_symmetrize(c, grps):
    perms = _group_perms(c.ndim, grps)
    out = O.zeros(c.shape)
    for i in np.ndindex(*c.shape):
        s = 0.0
        for p in perms:
            s = s + c[tuple(i[p[k]] for k in range(c.ndim))]
        out[i] = s / len(perms)
    return out


def invariant(c, grps):
    """formula: c is invariant under every within-group permutation (built without deciding anything)"""
    f = True
    for p in _group_perms(c.ndim, grps):
        for i in np.ndindex(*c.shape):
            j = tuple(i[p[k]] for k in range(c.ndim))
            if j > i:
                e = (c[i] == c[j])
                f = e if f is True else (f & e)
    return f


CFG = [dict(shape=(2, 2), grps=((0, 1),)), dict(shape=(3, 3), grps=((0, 1),)), dict(shape=(2, 2, 2), grps=((0, 1, 2),)),
       dict(shape=(2, 2, 3), grps=((0, 1),)), dict(shape=(2, 3, 2), grps=((0, 2),)),
       dict(shape=(2, 2, 2, 2), grps=((0, 1), (2, 3)), _tier="thorough"), dict(shape=(3, 3, 3), grps=((0, 1, 2),), _tier="thorough"),
       dict(shape=(2, 2, 2), grps=((1, 2),), _tier="thorough")]


def _g(grps):
    return np.array(grps[0]) if len(grps) == 1 else np.array(grps)


def _sym_params():
    out = []
    for c in CFG:
        for v in (None, 1):
            d = dict(c, version=v)
            if c["shape"] == (2, 2, 2, 2) and v == 1:
                d["_tier"] = "quick"  # two groups, older algorithm: pure data movement, one path
            if c["shape"] == (3, 3, 3) and v is None:
                continue  # the class-exemplar algorithm forks on 27 entries: path budget (40000) exhausted
            out.append(d)
    return out


@ob("C15", params=_sym_params(), max_paths=40000,
    bounds="symbolic entries; one or two disjoint groups of equal-sized modes incl. proper subsets of the modes; both algorithm versions")
def dense_symmetrize(E, shape, grps, version):
    """symmetrize == average over within-group permutations; result passes the test; idempotent"""
    X = O.dense(E, "x", shape)
    c = O.cells(X.data)
    ref = ref_symmetrize(c, grps)
    ok, Y = E.call(lambda: X.symmetrize(_g(grps), version=version), f"symmetrize version={version}")
    if not ok:
        return
    E.eq(Y.data, ref, "symmetrize == average over the group")
    for v2 in (None, 1):
        ok2, res = E.call(lambda: Y.issymmetric(_g(grps), version=v2), f"issymmetric(version={v2}) on the result")
        if ok2:
            E.true(res is True or res == True, f"result passes the symmetry test (version={v2})")  # noqa: E712
    ok3, Z = E.call(lambda: Y.symmetrize(_g(grps), version=version), "symmetrize twice")
    if ok3:
        E.eq(Z.data, ref, "symmetrize is idempotent")
    E.eq(X.data, c, "receiver unchanged")


# (2x2x2x2 with two groups and 3x3x3 exhaust a 900 s budget -- every equality test forks: not registered here)
@ob("C15", params=[dict(c, version=v) for c in CFG if c["shape"] not in ((2, 2, 2, 2), (3, 3, 3)) for v in (None, 1)], max_paths=40000,
    bounds="symbolic entries; the answer of issymmetric on every path is compared with the invariance formula under the path condition")
def dense_issymmetric_exact(E, shape, grps, version):
    """issymmetric answers True exactly when the tensor is invariant under every within-group permutation"""
    X = O.dense(E, "x", shape)
    c = O.cells(X.data)
    inv = invariant(c, grps)
    ok, res = E.call(lambda: X.issymmetric(_g(grps), version=version), f"issymmetric version={version}")
    if not ok:
        return
    if isinstance(res, tuple):
        res = res[0]
    if res:
        E.true(inv, "answered True: the tensor is invariant")
    else:
        E.true(~inv if isinstance(inv, SymBool) else not inv, "answered False: the tensor is not invariant")
    if version is None:
        ok2, det = E.call(lambda: X.issymmetric(_g(grps), version=1, return_details=True), "issymmetric with details")
        if ok2:
            E.true(bool(det[0]) == bool(res), "with details: same answer")
            diffs = np.asarray(det[1]).ravel().tolist()
            E.true(len(diffs) == len(np.asarray(det[2])), "one difference per permutation")
            for d in diffs:
                E.true(d >= 0, "reported differences are non-negative")


@ob("C15", params=[dict(c) for c in CFG[:5]], bounds="input symmetric by construction (one symbol per symmetry class)")
def dense_symmetric_input(E, shape, grps):
    """an already symmetric tensor passes the test and keeps its value under symmetrize (both versions)"""
    classes = {}
    c = O.zeros(shape)
    perms = _group_perms(len(shape), grps)
    for i in np.ndindex(*shape):
        rep = min(tuple(i[p[k]] for k in range(len(shape))) for p in perms)
        if rep not in classes:
            classes[rep] = E.real(f"s{len(classes)}")
        c[i] = classes[rep]
    from symx import npenv
    data = npenv.obj_array([c[i] for i in np.ndindex(*shape[::-1])], None) if False else None
    X = ttb.tensor(_as_data(E, c), copy=False)
    for version in (None, 1):
        ok, res = E.call(lambda: X.issymmetric(_g(grps), version=version), f"issymmetric version={version}")
        if ok:
            E.true(bool(res if not isinstance(res, tuple) else res[0]), f"symmetric input passes (version={version})")
        ok, Y = E.call(lambda: X.symmetrize(_g(grps), version=version), f"symmetrize version={version}")
        if ok:
            E.eq(Y.data, c, f"symmetric input unchanged (version={version})")


def _as_data(E, c):
    from symx import npenv
    if E.sym:
        return npenv.wrap(np.asfortranarray(c.copy()))
    return np.asfortranarray(np.array(c.tolist(), dtype=float))


# (N=3: "symmetrising again keeps the array" needs cube roots of products of cube roots: z3 unknown -- not registered)
@ob("C15", params=[dict(N=2, n=2, R=1), dict(N=2, n=2, R=2, _tier="thorough")], max_paths=40000, wall_s=600,
    bounds="cubical Kruskal tensor, size 2, symbolic weights and factors")
def kruskal_symmetrize(E, N, n, R):
    """ktensor.symmetrize gives identical factors (symmetric in all modes), passes ktensor.issymmetric, is idempotent"""
    K = O.kruskal(E, "k", (n,) * N, R)
    Y = K.symmetrize()
    for m in range(1, N):
        E.eq(Y.factor_matrices[m], Y.factor_matrices[0], "all factor matrices identical")
    d = O.den(Y)
    for p in itertools.permutations(range(N)):
        E.eq(O.ref_permute(d, p), d, "denoted array invariant under mode permutations")
    E.true(bool(Y.issymmetric()), "result passes ktensor.issymmetric")
    Z = Y.symmetrize()
    E.eq(O.den(Z), d, "symmetrising again keeps the array")


@ob("C15", params=[dict(N=2, R=2), dict(N=3, R=1)], bounds="ktensor.issymmetric on symbolic factors: exact w.r.t. equality of the factor matrices")
def kruskal_issymmetric_exact(E, N, R):
    """ktensor.issymmetric is True exactly when all factor matrices are equal"""
    K = O.kruskal(E, "k", (2,) * N, R)
    same = True
    for m in range(1, N):
        for a, b in zip(np.asarray(K.factor_matrices[0]).ravel().tolist(), np.asarray(K.factor_matrices[m]).ravel().tolist()):
            e = (a == b)
            same = e if same is True else (same & e)
    res = K.issymmetric()
    if res:
        E.true(same, "answered True: factor matrices equal")
    else:
        E.true(~same, "answered False: some factor matrices differ")


@ob("C15", params=[dict(N=2, R=1), dict(N=2, R=2, _tier="thorough"), dict(N=3, R=1, _tier="thorough")], max_paths=40000, wall_s=600,
    bounds="Kruskal tensor symmetric by construction (identical symbolic factor matrices), symbolic weights of any sign")
def kruskal_symmetric_input(E, N, R):
    """an already symmetric Kruskal tensor keeps its value under symmetrize"""
    U = E.reals("U", (2, R))
    w = E.reals("w", (R,))
    K = ttb.ktensor([U.copy() for _ in range(N)], w, copy=False)
    before = O.den(K)
    E.true(bool(K.issymmetric()), "identical factors pass ktensor.issymmetric")
    Y = K.symmetrize()
    E.eq(O.den(Y), before, "symmetric Kruskal tensor keeps its value")
