"""C16 -- export followed by import reproduces the object exactly.

Layout: the real export_data / import_data run on symbolic elements; ndarray.tofile / numpy.fromfile are token
stand-ins (one opaque token per element in numpy's element order), so the ordering logic (transpose for F order,
+1 / -index_base, row-by-row factors and their C-order reshape, weights line, sizes and counts) is the real code.
Precision: a lemma on the format constants read from the current source (z3 decides 10^(P-1) > 2^53)."""
import ast
import itertools
import os
import tempfile

import numpy as np
import pyttb as ttb
import z3
from symx.runner import ob, REPO
from symx import oracles as O
from symx import npenv


def _roundtrip(E, obj, index_base=None, peek=None):
    npenv.TOKENS.clear()
    fd, path = tempfile.mkstemp(prefix="verif_c16_", suffix=".txt")
    os.close(fd)
    try:
        ttb.export_data(obj, path)
        if peek is not None:
            peek(open(path).read())
        return ttb.import_data(path) if index_base is None else ttb.import_data(path, index_base=index_base)
    finally:
        os.unlink(path)


@ob("C16", params=[dict(shape=(3,)), dict(shape=(2, 3)), dict(shape=(2, 1, 3)), dict(shape=(2, 3, 2)), dict(shape=(1, 1)), dict(shape=(2, 3, 2, 2)), dict(shape=(2, 1, 3, 2, 2), _tier="thorough")],
    bounds="dense tensors with symbolic entries, N in {1,2,3,4}(5), singleton modes")
def dense_roundtrip(E, shape):
    """tensor -> file -> tensor: same type and shape, every cell identical"""
    X = O.dense(E, "x", shape)
    Y = _roundtrip(E, X)
    E.true(isinstance(Y, ttb.tensor), "type")
    E.true(Y.shape == tuple(shape), "shape", f"{Y.shape}")
    if Y.shape == tuple(shape):
        E.eq(Y.data, O.cells(X.data), "cells identical", exact=True)


def _sp_params():
    out = []
    for shape in [(4,), (2, 3), (2, 1, 3), (3, 2, 2)]:
        cells = O.all_positions(shape)
        pos = (cells[-1], cells[0], cells[len(cells) // 2])
        for order in itertools.permutations(range(3)):
            out.append(dict(shape=shape, pos=pos, order=order, _tier="quick" if order in ((0, 1, 2), (2, 0, 1)) else "thorough"))
    return out


@ob("C16", params=_sp_params(), bounds="sparse tensors with 3 stored symbolic values in every stored order; file inspected for 1-based subscripts; re-import with index_base 1 (default) and export-with-base-1 / import-with-base-0 shift")
def sparse_roundtrip(E, shape, pos, order):
    """sptensor -> file -> sptensor: same shape, subscripts, values and stored order; files carry 1-based subscripts"""
    S, pv = O.sparse_direct(E, "v", shape, pos, order)
    text = []
    Y = _roundtrip(E, S, peek=text.append)
    E.true(isinstance(Y, ttb.sptensor), "type")
    E.true(Y.shape == tuple(shape), "shape")
    E.true(np.array_equal(np.asarray(Y.subs), np.asarray(S.subs)), "subscripts and their stored order identical", f"{np.asarray(Y.subs).tolist()}")
    E.eq(Y.vals, O.cells(S.vals), "values identical, in the stored order", exact=True)
    lines = text[0].strip().split("\n")
    E.true(lines[0].strip() == "sptensor" and int(lines[3]) == 3, "header: type and nonzero count")
    for k in range(3):
        toks = lines[4 + k].split()
        want = [int(v) + 1 for v in np.asarray(S.subs)[k]]
        E.true([int(t) for t in toks[:-1]] == want, "file carries 1-based subscripts", f"{toks[:-1]} vs {want}")
    # a file whose subscripts are 0-based is read correctly when that base is given
    fd, path = tempfile.mkstemp(prefix="verif_c16_", suffix=".txt")
    os.close(fd)
    try:
        with open(path, "w") as fh:
            fh.write("\n".join(lines[:4]) + "\n")
            for k in range(3):
                toks = lines[4 + k].split()
                fh.write(" ".join([str(int(t) - 1) for t in toks[:-1]] + [toks[-1]]) + "\n")
        Z = ttb.import_data(path, index_base=0)
        E.true(np.array_equal(np.asarray(Z.subs), np.asarray(S.subs)), "index_base=0 file read correctly")
        E.eq(Z.vals, O.cells(S.vals), "index_base=0 values", exact=True)
    finally:
        os.unlink(path)


@ob("C16", params=[dict(shape=(3, 2), R=1), dict(shape=(3, 2), R=2), dict(shape=(2, 3, 2), R=2), dict(shape=(4,), R=3), dict(shape=(2, 1, 3), R=2, _tier="thorough")],
    bounds="Kruskal tensors with symbolic weights and non-square factor matrices, R in {1,2,3}")
def kruskal_roundtrip(E, shape, R):
    """ktensor -> file -> ktensor: weights and every factor matrix entry identical"""
    K = O.kruskal(E, "k", shape, R)
    Y = _roundtrip(E, K)
    E.true(isinstance(Y, ttb.ktensor), "type")
    E.true(Y.shape == tuple(shape) and Y.ncomponents == R, "shape and rank")
    E.eq(Y.weights, O.cells(K.weights), "weights identical", exact=True)
    for n in range(len(shape)):
        E.true(np.shape(Y.factor_matrices[n]) == (shape[n], R), "factor shape")
        E.eq(Y.factor_matrices[n], O.cells(K.factor_matrices[n]), f"factor {n} identical", exact=True)


@ob("C16", params=[dict(shape=(2, 3)), dict(shape=(3, 2)), dict(shape=(1, 4)), dict(shape=(3, 1))], bounds="non-square matrices with symbolic entries")
def matrix_roundtrip(E, shape):
    """matrix -> file -> matrix: same shape, every entry identical"""
    A = E.reals("a", shape)
    B = _roundtrip(E, A)
    E.true(isinstance(B, np.ndarray) and B.shape == tuple(shape), "type and shape")
    if B.shape == tuple(shape):
        E.eq(B, O.cells(A), "entries identical", exact=True)


BOUNDARY = [5e-324, 2.2250738585072014e-308, 2.225073858507201e-308, 1.7976931348623157e308, 0.1, 1.0 / 3.0, -0.0, 1e-300,
            123456789.12345679, -9.999999999999999e22, 1.0000000000000002, 4.35, 2.0 ** -1022, 9007199254740993.0, 6.02214076e23, -1e-7]


@ob("C16", params=[dict(kind=k) for k in ("tensor", "sptensor", "ktensor", "matrix")],
    bounds="concrete boundary doubles (denormal min, min normal, max, -0.0, 17-digit cases): encoding validation through the real C I/O on every run")
def boundary_doubles(E, kind):
    """finite doubles across the exponent range survive the default-format round trip bit for bit"""
    vals = np.array(BOUNDARY)
    if kind == "tensor":
        X = ttb.tensor(E.const(vals.reshape((4, 2, 2), order="F")))
        Y = _roundtrip(E, X)
        E.eq(Y.data, O.cells(X.data), "boundary doubles (tensor)", exact=True)
    elif kind == "sptensor":
        nz = vals[vals != 0]
        subs = np.array([[i % 4, i // 4] for i in range(len(nz))])
        S = ttb.sptensor(subs, E.const(nz.reshape(-1, 1)), (4, 4))
        Y = _roundtrip(E, S)
        E.eq(Y.vals, O.cells(S.vals), "boundary doubles (sptensor)", exact=True)
    elif kind == "ktensor":
        K = ttb.ktensor([E.const(vals[:8].reshape(4, 2)), E.const(vals[8:].reshape(4, 2))], E.const(np.array([0.1, 1e-300])))
        Y = _roundtrip(E, K)
        E.eq(Y.weights, O.cells(K.weights), "boundary doubles (weights)", exact=True)
        for n in range(2):
            E.eq(Y.factor_matrices[n], O.cells(K.factor_matrices[n]), "boundary doubles (factors)", exact=True)
    else:
        A = E.const(vals.reshape(8, 2))
        B = _roundtrip(E, A)
        E.eq(B, O.cells(A), "boundary doubles (matrix)", exact=True)


@ob("C16", bounds="format constants read from the AST of the current export_data.py; z3 decides 10^(P-1) > 2^53 for each default format", validate=False)
def precision_lemma(E):
    """the default formats print at least 17 significant digits: double -> decimal -> double is the identity (given correctly rounded printf/strtod)"""
    src = open(os.path.join(REPO, "pyttb", "export_data.py")).read()
    tree = ast.parse(src)
    fmts = []
    for node in ast.walk(tree):
        if isinstance(node, ast.Assign) and isinstance(node.value, ast.Constant) and isinstance(node.value.value, str):
            tgt = node.targets[0]
            if isinstance(tgt, ast.Name) and tgt.id in ("fmt_data", "fmt_weights"):
                fmts.append((tgt.id, node.value.value, node.lineno))
    E.true(len(fmts) >= 4, "default formats found in the source", f"{fmts}")
    import re
    for name, f, line in fmts:
        m = re.fullmatch(r"%\.(\d+)e", f)
        E.true(m is not None, f"default {name} is an exponent format", f"line {line}: {f!r}")
        if m is None:
            continue
        P = int(m.group(1)) + 1
        s = z3.Solver()
        p = z3.Int("P")
        s.add(p == P)
        s.add(z3.Not(z3.IntVal(10) ** (P - 1) > z3.IntVal(2) ** 53))
        r = s.check()
        E.stats.solver_calls += 1
        E.true(r == z3.unsat, f"10^(P-1) > 2^53 for the default {name}", f"line {line}: {f!r} prints {P} significant digits")
