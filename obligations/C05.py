"""C05 -- operations never modify their operands and never alias them.

For every catalogued operation: operands are symbolic; after the call (on every path)
  (i)  every array reachable from every operand is cell-for-cell equal to its snapshot (solver-proved), and
  (ii) no array reachable from the result shares memory with an array reachable from an operand (a memory fact,
       observed with numpy.shares_memory and confirmed by an in-place write through the result)."""
import itertools

import numpy as np
import pyttb as ttb
from symx.runner import ob
from symx import oracles as O


def arrays_of(obj, acc=None, seen=None):
    acc = [] if acc is None else acc
    seen = set() if seen is None else seen
    if id(obj) in seen or obj is None:
        return acc
    seen.add(id(obj))
    if isinstance(obj, np.ndarray):
        acc.append(obj)
    elif isinstance(obj, ttb.tensor):
        acc.append(obj.data)
    elif isinstance(obj, ttb.sptensor):
        acc += [obj.subs, obj.vals]
    elif isinstance(obj, ttb.ktensor):
        acc.append(obj.weights)
        acc += list(obj.factor_matrices)
    elif isinstance(obj, ttb.ttensor):
        arrays_of(obj.core, acc, seen)
        acc += [f for f in obj.factor_matrices if isinstance(f, np.ndarray)]
    elif isinstance(obj, ttb.sumtensor):
        for p in obj.parts:
            arrays_of(p, acc, seen)
    elif isinstance(obj, ttb.tenmat):
        acc.append(obj.data)
    elif isinstance(obj, ttb.sptenmat):
        acc += [obj.subs, obj.vals]
    elif isinstance(obj, (list, tuple)):
        for x in obj:
            arrays_of(x, acc, seen)
    elif isinstance(obj, dict):
        for x in obj.values():
            arrays_of(x, acc, seen)
    return acc


def snapshot(arrs):
    return [(a, a.shape, O.cells(a)) for a in arrs]


def unchanged(E, snap, label):
    for k, (a, shape, cells) in enumerate(snap):
        E.true(a.shape == shape, f"{label}: operand array shape unchanged")
        if a.shape == shape and a.size:
            E.eq(a, cells, f"{label}: operand unchanged")


def independent(E, operands, result, label):
    ops = [a for a in arrays_of(operands) if a.size]
    res = [a for a in arrays_of(result) if a.size]
    shared = [(i, j) for i, a in enumerate(ops) for j, b in enumerate(res) if np.shares_memory(a, b)]
    E.true(not shared, f"{label}: result shares no memory with an operand", f"operand array(s) {sorted({i for i, _ in shared})} aliased")
    if shared:
        return
    # confirm observably: overwrite the result in place, operands must keep their snapshot
    snap = snapshot(ops)
    for b in res:
        if b.flags.writeable:
            try:
                b[...] = b.dtype.type(0) if b.dtype != object else 0.0
            except (ValueError, TypeError):
                pass
    unchanged(E, snap, f"{label}: after overwriting the result")


def run_op(E, label, operands, thunk, inplace_receiver=None):
    """operands: list of objects; thunk() -> result.  inplace_receiver: object allowed to change (documented in-place op)"""
    watched = [o for o in operands if o is not inplace_receiver]
    snap = snapshot(arrays_of(watched))
    ok, result = E.call(thunk, label)
    if not ok:
        return None
    unchanged(E, snap, label)
    if inplace_receiver is None:
        independent(E, operands, result, label)
    else:
        independent(E, watched, inplace_receiver, label)
    return result


# ------------------------------------------------------------------------------------------ dense

def _dense_ops(E, X, shape):
    N = len(shape)
    v = [E.reals(f"v{m}_", (shape[m],)) for m in range(N)]
    M0 = E.reals("M0_", (2, shape[0]))
    Y = O.dense(E, "y", shape)
    ident = np.arange(N)
    ops = [
        ("copy", [X], lambda: X.copy()),
        ("full", [X], lambda: X.full()),
        ("double", [X], lambda: X.double()),
        ("to_sptensor", [X], lambda: X.to_sptensor()),
        ("find", [X], lambda: X.find()),
        ("to_tenmat", [X], lambda: X.to_tenmat(np.array([0]))),
        ("to_tenmat(all rows)", [X], lambda: X.to_tenmat(np.arange(N))),
        ("permute(identity)", [X], lambda: X.permute(ident)),
        ("permute(reverse)", [X], lambda: X.permute(ident[::-1].copy())),
        ("reshape(same shape)", [X], lambda: X.reshape(shape)),
        ("reshape(flat)", [X], lambda: X.reshape((int(np.prod(shape)),))),
        ("squeeze", [X], lambda: X.squeeze()),
        ("exp", [X], lambda: X.exp()) if False else ("neg", [X], lambda: -X),
        ("pos", [X], lambda: +X),
        ("ttv mode 0", [X, v[0]], lambda: X.ttv(v[0], 0)),
        ("ttm mode 0", [X, M0], lambda: X.ttm(M0, 0)),
        ("innerprod", [X, Y], lambda: X.innerprod(Y)),
        ("add", [X, Y], lambda: X + Y),
        ("sub", [X, Y], lambda: X - Y),
        ("mul", [X, Y], lambda: X * Y),
        ("mul scalar", [X], lambda: X * 2.0),
        ("rmul scalar", [X], lambda: 2.0 * X),
        ("div scalar", [X], lambda: X / 2.0),
        ("eq", [X, Y], lambda: X == Y),
        ("lt", [X, Y], lambda: X < Y),
        ("logical_and", [X, Y], lambda: X.logical_and(Y)),
        ("logical_not", [X], lambda: X.logical_not()),
        ("collapse mode 0", [X], lambda: X.collapse(np.array([0]))),
        ("scale mode 0", [X, v[0]], lambda: X.scale(v[0], 0)),
        ("mask", [X, Y], lambda: X.mask(ttb.tensor(np.ones(shape)))),
        ("getitem slice", [X], lambda: X[tuple(slice(None) for _ in shape)]),
        ("getitem last-mode int", [X], lambda: X[tuple([slice(None)] * (N - 1) + [0])] if N > 1 else X[0]),
        ("getitem linear slice", [X], lambda: X[0:2]),
        ("getitem subs", [X], lambda: X[np.zeros((2, N), dtype=int)]),
        ("tensor(data) copy=True", [X], lambda: ttb.tensor(X.data)),
        ("tensor.from_function passthrough", [X], lambda: ttb.tensor.from_function(lambda s: X.data.copy(), shape)),
    ]
    if N >= 2:
        U = [E.reals(f"U{m}_", (shape[m], 2)) for m in range(N)]
        ops += [
            ("mttkrp", [X] + U, lambda: X.mttkrp(U, 0)),
            ("mttkrps", [X] + U, lambda: X.mttkrps(U)),
            ("ttt outer", [X, Y], lambda: X.ttt(Y)),
            ("ttv all", [X] + v, lambda: X.ttv(list(v))),
            ("ttm list", [X, M0], lambda: X.ttm([M0], dims=np.array([0]))),
        ]
        if shape[0] == shape[1]:
            ops += [("contract", [X], lambda: X.contract(0, 1)), ("symmetrize", [X], lambda: X.symmetrize(np.array([0, 1]))),
                    ("issymmetric", [X], lambda: X.issymmetric(np.array([0, 1])))]
    return ops


def _names(builder, *args):
    """operation names of a catalogue (built once at import time with concrete dummy inputs)"""
    from symx.harness import Env
    return [op[0] for op in builder(Env("conc"), *args)]


def _dense_catalogue(E, shape):
    X = O.dense(E, "x", shape)
    return _dense_ops(E, X, shape)


def _dense_params():
    out = []
    for shape, tier in [((2, 2), "quick"), ((2, 1, 3), "quick"), ((3,), "thorough"), ((2, 3, 2), "thorough")]:
        for name in _names(_dense_catalogue, shape):
            if shape == (2, 3, 2) and name == "logical_and":
                continue  # 12 cells x 2 operands: the zero / non-zero forks exhaust the 30000-path budget
            out.append(dict(shape=shape, op=name, _tier=tier))
    return out


@ob("C05", params=_dense_params(), max_paths=30000,
    bounds="dense receiver with symbolic entries; one catalogued operation per obligation (incl. identity permutation, size-preserving reshape, single-mode selections); second operands symbolic")
def dense_ops(E, shape, op):
    """tensor operations leave their operands unchanged and return objects that share no memory with them"""
    ops = {o[0]: o for o in _dense_catalogue(E, shape)}
    label, operands, thunk = ops[op]
    run_op(E, f"tensor.{label}", operands, thunk)


# ------------------------------------------------------------------------------------------ sparse

def _sparse_ops(E, S, shape):
    N = len(shape)
    v = [E.reals(f"v{m}_", (shape[m],)) for m in range(N)]
    M0 = E.reals("M0_", (2, shape[0]))
    cells = O.all_positions(shape)
    T, _ = O.sparse_direct(E, "t", shape, [cells[0], cells[-1]])
    Y = O.dense(E, "y", shape)
    ident = np.arange(N)
    q = np.array([cells[-1], cells[0]])
    ops = [
        ("copy", [S], lambda: S.copy()),
        ("full", [S], lambda: S.full()),
        ("double", [S], lambda: S.double()),
        ("find", [S], lambda: S.find()),
        ("to_sptenmat", [S], lambda: S.to_sptenmat(np.array([0]))),
        ("permute(identity)", [S], lambda: S.permute(ident)),
        ("permute(reverse)", [S], lambda: S.permute(ident[::-1].copy())),
        ("reshape(same shape)", [S], lambda: S.reshape(shape)),
        ("reshape(flat)", [S], lambda: S.reshape((int(np.prod(shape)),))),
        ("squeeze", [S], lambda: S.squeeze()),
        ("neg", [S], lambda: -S),
        ("pos", [S], lambda: +S),
        ("ones", [S], lambda: S.ones()),
        ("elemfun", [S], lambda: S.elemfun(lambda x: x * x)),
        ("ttv mode 0", [S, v[0]], lambda: S.ttv(v[0], 0)),
        ("ttm mode 0", [S, M0], lambda: S.ttm(M0, 0)),
        ("innerprod sparse", [S, T], lambda: S.innerprod(T)),
        ("innerprod dense", [S, Y], lambda: S.innerprod(Y)),
        ("add sparse", [S, T], lambda: S + T),
        ("sub sparse", [S, T], lambda: S - T),
        ("add dense", [S, Y], lambda: S + Y),
        ("mul scalar", [S], lambda: S * 2.0),
        ("rmul scalar", [S], lambda: 2.0 * S),
        ("lt sparse", [S, T], lambda: S < T),
        ("ge sparse", [S, T], lambda: S >= T),
        ("logical_and sparse", [S, T], lambda: S.logical_and(T)),
        ("logical_or sparse", [S, T], lambda: S.logical_or(T)),
        ("logical_not", [S], lambda: S.logical_not()),
        ("collapse mode 0", [S], lambda: S.collapse(np.array([0]))),
        ("scale mode 0", [S, v[0]], lambda: S.scale(v[0], 0)),
        ("extract", [S, q], lambda: S.extract(q)),
        ("getitem subs", [S, q], lambda: S[q]),
        ("getitem region all", [S], lambda: S[tuple(slice(None) for _ in shape)]),
        ("getitem region list", [S], lambda: S[tuple([[shape[0] - 1, 0]] + [slice(None)] * (N - 1))] if N > 1 else S[[shape[0] - 1, 0]]),
        ("getitem region int", [S], lambda: S[tuple([shape[0] - 1] + [slice(None)] * (N - 1))] if N > 1 else S[shape[0] - 1]),
        ("allsubs", [S], lambda: S.allsubs()),
        ("squash", [S], lambda: S.squash()),
        ("sptensor(subs, vals) copy=True", [S], lambda: ttb.sptensor(S.subs, S.vals, S.shape)),
        ("from_aggregator", [S], lambda: ttb.sptensor.from_aggregator(S.subs, S.vals, S.shape)),
    ]
    if N >= 2:
        U = [E.reals(f"U{m}_", (shape[m], 2)) for m in range(N)]
        ops += [("mttkrp", [S] + U, lambda: S.mttkrp(U, 0))]
        if shape[0] == shape[1]:
            ops += [("contract", [S], lambda: S.contract(0, 1))]
    return ops


def _sparse_catalogue(E, shape, layout):
    cells = O.all_positions(shape)
    pos = [cells[-1], cells[len(cells) // 2], cells[0]] if layout == 0 else [cells[-1], cells[-2]]
    S, _ = O.sparse_direct(E, "x", shape, pos)
    return _sparse_ops(E, S, shape)


def _sparse_params():
    out = []
    for shape, tier in [((2, 2), "quick"), ((2, 1, 3), "quick"), ((3,), "thorough"), ((2, 3, 2), "thorough")]:
        for layout in (0, 1):
            for name in _names(_sparse_catalogue, shape, layout):
                out.append(dict(shape=shape, layout=layout, op=name, _tier=tier if layout == 0 or shape != (2, 1, 3) else "thorough"))
    return out


@ob("C05", params=_sparse_params(), max_paths=6000,
    bounds="sparse receiver with 2-3 stored symbolic non-zero values (layout 0: spread; layout 1: all inside the region read); one catalogued operation per obligation")
def sparse_ops(E, shape, layout, op):
    """sptensor operations leave their operands (subs and vals) unchanged and return independent objects"""
    ops = {o[0]: o for o in _sparse_catalogue(E, shape, layout)}
    label, operands, thunk = ops[op]
    run_op(E, f"sptensor.{label}", operands, thunk)


# ------------------------------------------------------------------------------------------ Kruskal / Tucker / sum / matricized

def _structured_catalogue(E, shape, R):
    N = len(shape)
    K = O.kruskal(E, "k", shape, R)
    B = O.kruskal(E, "b", shape, R)
    E.hint_sumsq(O.den(K))
    # sign fixing against a reference: rank-1 receiver, concrete reference (a symbolic reference or rank 2 makes
    # the sign conditions bilinear / the path count explode)
    K1 = O.kruskal(E, "q", shape, 1)
    Bc = ttb.ktensor([E.const(np.array([[3.0], [4.0], [12.0]][:s])) for s in shape], E.const(np.ones(1)))
    T = O.tucker(E, "t", shape, (1,) * N)
    X = O.dense(E, "x", shape)
    v = [E.reals(f"v{m}_", (shape[m],)) for m in range(N)]
    M0 = E.reals("M0_", (2, shape[0]))
    U = [E.reals(f"U{m}_", (shape[m], 2)) for m in range(N)]
    ident = np.arange(N)
    ST = ttb.sumtensor([X, K], copy=True)
    TM = X.to_tenmat(np.array([0]))
    cells = O.all_positions(shape)
    S, _ = O.sparse_direct(E, "s", shape, [cells[-1], cells[0]])
    SM = S.to_sptenmat(np.array([0]))
    vec = K.tovec()
    ops = [
        ("ktensor.copy", [K], lambda: K.copy(), None),
        ("ktensor.full", [K], lambda: K.full(), None),
        ("ktensor.double", [K], lambda: K.double(), None),
        ("ktensor.permute(identity)", [K], lambda: K.permute(ident), None),
        ("ktensor.permute(reverse)", [K], lambda: K.permute(ident[::-1].copy()), None),
        ("ktensor.ttv mode 0", [K, v[0]], lambda: K.ttv(v[0], 0), None),
        ("ktensor.ttv all but one", [K] + v, lambda: K.ttv(list(v[1:]), exclude_dims=np.array([0])), None),
        ("ktensor.extract", [K], lambda: K.extract([0]), None),
        ("ktensor.extract all", [K], lambda: K.extract(list(range(R))), None),
        ("ktensor.mttkrp", [K] + U, lambda: K.mttkrp(U, 0), None),
        ("ktensor.innerprod", [K, B], lambda: K.innerprod(B), None),
        ("ktensor.norm", [K], lambda: K.norm(), None),
        ("ktensor.tolist", [K], lambda: K.tolist(), None),
        ("ktensor.tovec", [K], lambda: K.tovec(), None),
        ("ktensor.from_vector", [vec], lambda: ttb.ktensor.from_vector(vec, shape, True), None),
        ("ktensor.add", [K, B], lambda: K + B, None),
        ("ktensor.sub", [K, B], lambda: K - B, None),
        ("ktensor.neg", [K], lambda: -K, None),
        ("ktensor.pos", [K], lambda: +K, None),
        ("ktensor.mul scalar", [K], lambda: K * 2.0, None),
        ("ktensor.mask", [K], lambda: K.mask(ttb.tensor(np.ones(shape))), None),
        ("ktensor.symmetrize", [K], lambda: K.symmetrize(), None) if len(set(shape)) == 1 else ("ktensor.isequal", [K, B], lambda: K.isequal(B), None),
        ("ktensor(factors, weights) copy=True", [K], lambda: ttb.ktensor(K.factor_matrices, K.weights), None),
        ("ktensor.to_tenmat", [K], lambda: K.to_tenmat(np.array([0])), None),
        ("ktensor.score", [K, B], lambda: K.score(B), None) if False else ("ktensor.ncomponents", [K], lambda: K.ncomponents, None),
        # documented in-place operations: only the receiver may change
        ("ktensor.normalize (in place)", [K, B], lambda: K.normalize(), K),
        ("ktensor.arrange (in place)", [K, B], lambda: K.arrange(), K),
        ("ktensor.fixsigns(other) (in place)", [K1, Bc], lambda: K1.fixsigns(Bc), K1),
        ("ktensor.redistribute (in place)", [K, B], lambda: K.redistribute(0), K),
        ("ttensor.copy", [T], lambda: T.copy(), None),
        ("ttensor.full", [T], lambda: T.full(), None),
        ("ttensor.permute(identity)", [T], lambda: T.permute(ident), None),
        ("ttensor.ttv", [T, v[0]], lambda: T.ttv(v[0], 0), None),
        ("ttensor.ttm", [T, M0], lambda: T.ttm(M0, 0), None),
        ("ttensor.mttkrp", [T] + U, lambda: T.mttkrp(U, 0), None),
        ("ttensor.reconstruct", [T], lambda: T.reconstruct(), None),
        ("ttensor.neg", [T], lambda: -T, None),
        ("ttensor.mul scalar", [T], lambda: T * 2.0, None),
        ("ttensor(core, factors) copy=True", [T], lambda: ttb.ttensor(T.core, T.factor_matrices), None),
        ("sumtensor(parts) copy=True", [X, K], lambda: ttb.sumtensor([X, K]), None),
        ("sumtensor.copy", [ST], lambda: ST.copy(), None),
        ("sumtensor.full", [ST], lambda: ST.full(), None),
        ("sumtensor.add", [ST, X], lambda: ST + X, None),
        ("sumtensor.neg", [ST], lambda: -ST, None),
        ("sumtensor.ttv", [ST, v[0]], lambda: ST.ttv(v[0], 0), None),
        ("tenmat.copy", [TM], lambda: TM.copy(), None),
        ("tenmat.to_tensor", [TM], lambda: TM.to_tensor(), None),
        ("tenmat.double", [TM], lambda: TM.double(), None),
        ("tenmat.ctranspose", [TM], lambda: TM.ctranspose(), None),
        ("tenmat.add", [TM], lambda: TM + TM, None),
        ("tenmat.neg", [TM], lambda: -TM, None),
        ("tenmat(data) copy=True", [TM], lambda: ttb.tenmat(TM.data, TM.rindices, TM.cindices, TM.tshape), None),
        ("sptenmat.copy", [SM], lambda: SM.copy(), None),
        ("sptenmat.to_sptensor", [SM], lambda: SM.to_sptensor(), None),
        ("sptenmat.full", [SM], lambda: SM.full(), None),
        ("sptenmat.double", [SM], lambda: SM.double().toarray(), None),
        ("sptenmat.neg", [SM], lambda: -SM, None),
        ("sptenmat(subs, vals) copy=True", [SM], lambda: ttb.sptenmat(SM.subs, SM.vals, SM.rdims, SM.cdims, SM.tshape), None),
    ]
    return ops


def _structured_params():
    out = []
    for shape, R, tier in [((2, 2), 2, "quick"), ((2, 3, 2), 1, "thorough")]:
        for name in _names(_structured_catalogue, shape, R):
            out.append(dict(shape=shape, R=R, op=name, _tier=tier))
    return out


@ob("C05", params=_structured_params(), max_paths=6000, wall_s=600,
    bounds="Kruskal / Tucker / sum / tenmat / sptenmat receivers with symbolic components; one catalogued operation per obligation; documented in-place operations may change only the receiver")
def structured_ops(E, shape, R, op):
    """ktensor / ttensor / sumtensor / tenmat / sptenmat operations: operands untouched, results independent; in-place methods change only the receiver"""
    ops = {o[0]: o for o in _structured_catalogue(E, shape, R)}
    label, operands, thunk, inplace = ops[op]
    run_op(E, label, operands, thunk, inplace_receiver=inplace)


@ob("C05", params=[dict(which=w) for w in ("tt_ind2sub", "tt_sub2ind", "khatrirao", "tt_dimscheck", "tt_union_rows")],
    bounds="helper functions taking caller arrays (index arrays with negative entries, subscript arrays, matrices)")
def helper_ops(E, which):
    """helpers leave the arrays passed by the caller untouched"""
    from pyttb import pyttb_utils as U
    if which == "tt_ind2sub":
        idx = np.array([-1, 0, 3, -4])
        run_op(E, "tt_ind2sub(negative indices)", [idx], lambda: U.tt_ind2sub((2, 3), idx))
    elif which == "tt_sub2ind":
        subs = np.array([[1, 2], [0, 0]])
        run_op(E, "tt_sub2ind", [subs], lambda: U.tt_sub2ind((2, 3), subs))
    elif which == "khatrirao":
        A, B = E.reals("A", (2, 2)), E.reals("B", (3, 2))
        run_op(E, "khatrirao", [A, B], lambda: ttb.khatrirao(A, B))
        run_op(E, "khatrirao(single)", [A], lambda: ttb.khatrirao(A))
    elif which == "tt_dimscheck":
        d = np.array([2, 0])
        run_op(E, "tt_dimscheck", [d], lambda: U.tt_dimscheck(3, 2, dims=d))
    else:
        a, b = np.array([[1, 1], [0, 1]]), np.array([[0, 1], [0, 0]])
        run_op(E, "tt_union_rows", [a, b], lambda: U.tt_union_rows(a, b))


# ------------------------------------------------------------------------------------------ memory layout

def _layout_params():
    import itertools
    out = []
    for shape in [(2, 1, 3), (1, 2), (2, 1), (1, 3, 1), (2, 2, 1), (1, 1, 2, 2)]:
        N = len(shape)
        for k in range(N + 1):
            for rd in itertools.permutations(range(N), k):
                rest = [m for m in range(N) if m not in rd]
                cds = list(itertools.permutations(rest)) if N <= 3 else [tuple(rest), tuple(rest[::-1])]
                for cd in cds:
                    out.append(dict(shape=shape, rdims=rd, cdims=cd))
    return out


@ob("C05", params=_layout_params(), max_paths=200, wall_s=120,
    bounds="shapes with singleton modes (where a transposed array can stay contiguous, so that a 'the transpose allocates' assumption fails): "
           "every ordered split of the modes into row / column modes; tensor <-> tenmat, copies, permute by the split's order, reshape, squeeze")
def layout_aliasing(E, shape, rdims, cdims):
    """conversions whose copies depend on the memory layout: results never share memory with the operand, for every mode split of shapes with singleton modes"""
    X = O.dense(E, "x", shape)
    rd, cd = np.array(rdims, dtype=int), np.array(cdims, dtype=int)
    TM = run_op(E, "tensor.to_tenmat(rdims, cdims)", [X], lambda: X.to_tenmat(rd, cd))
    if TM is not None:
        run_op(E, "tenmat.to_tensor", [TM], lambda: TM.to_tensor())
        run_op(E, "tenmat.copy", [TM], lambda: TM.copy())
        run_op(E, "tenmat.double", [TM], lambda: TM.double())
        run_op(E, "tenmat.ctranspose", [TM], lambda: TM.ctranspose())
        run_op(E, "tenmat(data) copy=True", [TM], lambda: ttb.tenmat(TM.data, TM.rindices, TM.cindices, TM.tshape))
    order = np.array(list(rdims) + list(cdims), dtype=int)
    run_op(E, "tensor.permute(split order)", [X], lambda: X.permute(order))
    run_op(E, "tensor.squeeze", [X], lambda: X.squeeze())
    run_op(E, "tensor.reshape(permuted shape)", [X], lambda: X.reshape(tuple(shape[m] for m in order)))
    run_op(E, "tensor.copy", [X], lambda: X.copy())
    run_op(E, "tensor(data) copy=True", [X], lambda: ttb.tensor(X.data))
    S = X.to_sptensor()
    SM = run_op(E, "sptensor.to_sptenmat(rdims, cdims)", [S], lambda: S.to_sptenmat(rd, cd))
    if SM is not None:
        run_op(E, "sptenmat.to_sptensor", [SM], lambda: SM.to_sptensor())
    run_op(E, "sptensor.permute(split order)", [S], lambda: S.permute(order))
    run_op(E, "sptensor.squeeze", [S], lambda: S.squeeze())


# ------------------------------------------------------------------------------------------ algorithm entry points

@ob("C05", params=[dict(alg="gcp_opt", init="ktensor"), dict(alg="gcp_opt", init="list"), dict(alg="tucker_als", init="list")],
    validate=False, env_stub=True, max_paths=2000, wall_s=300,
    bounds="algorithm entry points with the numerical back end stubbed (L-BFGS-B: opaque stub; nvecs: contract stub): 2x2 symbolic data, rank-1 symbolic starting "
           "guess with a non-unit weight; judged: operands unchanged, returned MODEL independent of them (the 'initial guess' output is by design the caller's object; "
           "cp_als / cp_apr / hosvd: see the 'untouched' goals of C09 / C11 / C10)")
def algorithm_entry_points(E, alg, init):
    """the data and the caller's starting guess are unchanged after the call, and the returned objects share no memory with them"""
    from symx import harness as H
    X = O.dense(E, "d", (2, 2))
    if alg == "gcp_opt":
        from pyttb.gcp import optimizers as opt
        from pyttb.gcp.fg_setup import Objectives
        from obligations.C13 import _LbfgsStub
        if init == "ktensor":
            from symx import npenv
            w = E.real("w", positive=True)
            guess = ttb.ktensor([E.reals(f"U{n}_", (2, 1), positive=True) for n in range(2)], (npenv.obj_array([w]) if E.sym else np.array([w])), copy=False)
        else:
            guess = [E.reals(f"U{n}_", (2, 1), positive=True) for n in range(2)]
        real = opt.fmin_l_bfgs_b
        opt.fmin_l_bfgs_b = _LbfgsStub(E, "s")
        try:
            run_op(E, f"gcp_opt(init={init})", [X, guess], lambda: ttb.gcp_opt(X, 1, Objectives.GAUSSIAN, opt.LBFGSB(maxiter=2), init=guess, printitn=0)[0])
        finally:
            opt.fmin_l_bfgs_b = real
    elif alg == "tucker_als":
        guess = [E.reals(f"U{n}_", (2, 1)) for n in range(2)]
        with H.nvecs_stub(E):
            run_op(E, "tucker_als(init=list)", [X, guess], lambda: ttb.tucker_als(X, [1, 1], maxiters=1, init=guess, printitn=0)[0])
