"""C09 -- CP-ALS returns a model consistent with everything it reports (bounded sweeps, opaque linear solves).

np.linalg.solve is an opaque stub: it returns a fresh symbolic matrix Z and records the system it was handed.  Checked
for every Z: the system of mode n is (Hadamard of the other Gram matrices)^T Z = (MTTKRP_n)^T for the *current*
factors; the factor stored is Z^T divided by the reported weights; the residual / fit identities; normal form of
the returned model; iteration count; initial guess; operands untouched."""
import itertools

import numpy as np
import pyttb as ttb
from symx.runner import ob
from symx import oracles as O
from symx import harness as H


def _data(E, shape, kind):
    vals = ((np.arange(int(np.prod(shape))) * 7 + 3) % 11 - 4.0).reshape(shape, order="F")
    X = ttb.tensor(E.const(vals))
    if kind == "dense":
        return X, O.cells(X.data)
    if kind == "sparse":
        S = X.to_sptensor()
        return S, O.den(S)
    if kind == "ttensor":
        core = ttb.tensor(E.const(vals[tuple(slice(0, 1) for _ in shape)] * 0 + 2.0))
        T = ttb.ttensor(core, [E.const(np.arange(1.0, s + 1).reshape(s, 1)) for s in shape])
        return T, O.den(T)
    if kind == "sumtensor":
        K = ttb.ktensor([E.const(np.arange(1.0, s + 1).reshape(s, 1)) for s in shape], E.const(np.array([0.5])))
        ST = ttb.sumtensor([X, K])
        return ST, O.den(ST)
    raise ValueError(kind)


def _params(full):
    out = []
    shapes = [((2, 2), 1, "quick"), ((2, 3), 1, "quick")] if full else \
        [((2, 2), 1, "quick"), ((2, 3), 1, "quick"), ((3, 2), 1, "quick")]
    for shape, R, tier in shapes:
        N = len(shape)
        orders = [None, list(range(N))[::-1]] + ([[1, 2, 0]] if N == 3 else [])
        for kind in ("dense", "sparse", "ttensor", "sumtensor"):
            for dimorder in (orders if kind == "dense" else orders[:1]):
                for init in (("given", "random", "nvecs") if kind == "dense" and dimorder is None else ("given",)):
                    if init == "nvecs" and R > min(shape):
                        continue
                    for printitn in ((0, 1) if full and init == "given" and dimorder is None and kind in ("dense", "sumtensor") else (0,)):
                        out.append(dict(shape=shape, R=R, kind=kind, dimorder=dimorder, optdims=None, init=init, printitn=printitn, fixsigns=True, _tier=tier))
        out.append(dict(shape=shape, R=R, kind="dense", dimorder=None, optdims=[0], init="given", printitn=0, fixsigns=True, _tier=tier))
        out.append(dict(shape=shape, R=R, kind="dense", dimorder=list(range(N))[::-1], optdims=list(range(1, N)), init="given", printitn=0, fixsigns=False, _tier=tier))
    # tiers from measured cost (nlsat time explodes with the number of normalisation / sign / sort decisions):
    # configurations that do not finish within the budget are not registered at all (listed in DESIGN.md)
    kept = []
    for p in out:
        sh, kind = p["shape"], p["kind"]
        if not full:
            if kind == "sparse" and sh == (2, 3) or kind == "ttensor" and sh != (2, 2):
                p["_tier"] = "thorough"
            kept.append(p)
        else:
            cheap = (p["optdims"] is not None) or kind == "sumtensor"
            if sh == (2, 2) and kind != "sparse" and p["init"] != "random":
                p["_tier"] = "quick" if cheap and not (p["optdims"] is None and kind != "sumtensor") else "thorough"
                kept.append(p)
            elif sh == (2, 3) and (kind == "sumtensor" or p["optdims"] == [1]):
                p["_tier"] = "quick" if p["optdims"] == [1] else "thorough"
                kept.append(p)
    return kept


def _sqrt(E, x):
    from symx import core
    if core.is_sym(x):
        return x.sqrt()
    import math
    return math.sqrt(x)


_CP_ALS_LOCALS = ("M", "init", "fit", "normresidual", "iteration")


def _run(E, X, R, dimorder, optdims, init_arg, printitn, fixsigns, cut):
    """run cp_als for one sweep; with cut=True stop right before the final arrange and hand back cp_als' locals"""
    import sys
    from symx.core import Cut
    real_arrange = ttb.ktensor.arrange
    state = {}
    if cut:
        def arrange(self, *a, **k):
            fr = sys._getframe(1)
            if fr.f_code.co_name == "cp_als":  # called from cp_als itself: the final arrange
                loc = dict(fr.f_locals)
                missing = [k for k in _CP_ALS_LOCALS if k not in loc]
                if missing:
                    # the harness reads these local variables of cp_als; if the source was reorganised the
                    # obligation is inconclusive (exit 2), never a violation
                    from symx.core import Unmodelled
                    raise Unmodelled(f"cp_als internals changed: local variable(s) {missing} not found at the final arrange")
                raise Cut(loc)
            return real_arrange(self, *a, **k)
        ttb.ktensor.arrange = arrange
    try:
        with H.rng(E) as rng, H.nvecs_stub(E) as nv, H.solve_stub(E) as sv:
            try:
                res = ttb.cp_als(X, R, stoptol=1e-4, maxiters=1, dimorder=dimorder, optdims=optdims, init=init_arg, printitn=printitn, fixsigns=fixsigns)
                state["result"] = res
            except Cut as c:
                state["locals"] = c.payload
    finally:
        ttb.ktensor.arrange = real_arrange
    return state, rng, nv, sv


def _check_init(E, init, Minit, K0, snap, rng, nv, xc, shape, R):
    N = len(shape)
    if init == "given":
        E.true(Minit is K0, "the returned initial guess is the object that was passed")
        E.eq(K0.weights, snap[0], "caller's guess: weights unchanged")
        for n in range(N):
            E.eq(K0.factor_matrices[n], snap[1][n], "caller's guess: factors unchanged")
    elif init == "random":
        E.true(len(rng.draws) == sum(shape) * R, "init=random: one uniform draw per factor entry", f"{len(rng.draws)}")
        E.true(rng.seeds == [], "the global random stream is not reseeded")
        flat = [v for f in Minit.factor_matrices for v in np.asarray(f).ravel().tolist()]
        E.true(sorted(map(_key, flat)) == sorted(map(_key, rng.draws)), "the returned initial guess holds exactly the drawn values")
    else:
        E.true(len(nv.calls) == N, "init=nvecs: one request per mode")
        for n in range(N):
            E.true(nv.calls[n]["n"] == n and nv.calls[n]["r"] == R, "init=nvecs: mode and count")
            E.eq(nv.calls[n]["cells"], xc, "init=nvecs: leading vectors of the data")
            E.eq(Minit.factor_matrices[n], nv.calls[n]["V"], "the returned initial guess holds the computed vectors")


@ob("C09", params=_params(False), max_paths=6000, wall_s=600, validate=False, env_stub=True,
    bounds="one sweep (maxiters=1), stopped right before the final arrange; data concrete asymmetric integers held dense / sparse / Tucker / sum; starting guess symbolic (given), random (RNG stub) or nvecs (stub); linear solves opaque (fresh symbolic solution); mode orders, optdims subsets")
def sweep(E, shape, R, kind, dimorder, optdims, init, printitn, fixsigns):
    """one CP-ALS sweep: the normal equations handed to the solver use the current factors; stored factors; residual / fit identities"""
    N = len(shape)
    X, xc = _data(E, shape, kind)
    normsq = O.ref_sumsq(xc)
    K0 = snap = None
    if init == "given":
        K0 = O.kruskal(E, "g", shape, R)
        snap = (O.cells(K0.weights), [O.cells(f) for f in K0.factor_matrices])
    state, rng, nv, sv = _run(E, X, R, dimorder, optdims, K0 if init == "given" else init, printitn, fixsigns, cut=True)
    if "locals" not in state:
        from symx.core import Unmodelled
        raise Unmodelled("cp_als internals changed: the final arrange was not reached from cp_als")
    L = state["locals"]
    Minit = L["init"]
    _check_init(E, init, Minit, K0, snap, rng, nv, xc, shape, R)
    U = [O.cells(np.asarray(f)) for f in Minit.factor_matrices]
    order = [d for d in (list(range(N)) if dimorder is None else list(dimorder)) if optdims is None or d in optdims]
    w = None
    ptr = 0
    for step, n in enumerate(order):
        Y = O.zeros((R, R))
        for a in range(R):
            for b in range(R):
                t = 1.0
                for m in range(N):
                    if m != n:
                        g = 0.0
                        for i in range(shape[m]):
                            g = g + U[m][i, a] * U[m][i, b]
                        t = t * g
                Y[a, b] = t
        if all(not (v != 0) for v in Y.ravel().tolist()):
            # all other factors orthogonal / zero: the documented shortcut stores a zero factor without solving
            Unew = O.zeros((shape[n], R))
        else:
            E.true(ptr < len(sv.calls), f"mode {n}: a linear system is solved")
            if ptr >= len(sv.calls):
                return
            call = sv.calls[ptr]
            ptr += 1
            E.eq(call["A"], Y.T, f"mode {n}: coefficient matrix handed to the solver (Hadamard of the other Gram matrices, transposed)")
            E.eq(call["B"], O.ref_mttkrp(xc, U, n).T, f"mode {n}: right-hand side handed to the solver (MTTKRP with the current factors, transposed)")
            Unew = O.cells(np.asarray(call["Z"])).T
        w = []
        for r in range(R):
            sq = 0.0
            for i in range(shape[n]):
                sq = sq + Unew[i, r] * Unew[i, r]
            w.append(_sqrt(E, sq))
        if any((x != 0) for x in w):
            Unew = Unew / np.array(w, dtype=object)[None, :]
        U[n] = Unew
    E.true(ptr == len(sv.calls), "no further linear solves", f"{len(sv.calls)} vs {ptr}")
    M = L["M"]
    for n in range(N):
        E.eq(M.factor_matrices[n], U[n], f"stored factor {n}: solver output transposed, columns divided by their 2-norms (others untouched)")
    E.eq(M.weights, w, "weights are the column norms of the factor updated last")
    dm = O.den_kruskal(w, U)
    nr, fit = L["normresidual"], L["fit"]
    ip = O.ref_innerprod(xc, dm)
    msq = O.ref_sumsq(dm)
    if kind == "sumtensor":
        E.eq(nr, msq - 2 * ip, "sum-tensor data: reported value is ||M||^2 - 2<X,M>")
        E.eq(fit, nr, "sum-tensor data: fit reports the same value")
    else:
        E.hint_sumsq(xc - dm)
        d = normsq + msq - 2 * ip
        E.eq(nr * nr, d if (d >= 0) else -d, "normresidual^2 == ||X - M||^2 recomputed from the model")
        E.eq((1 - fit) * _sqrt(E, normsq), nr, "fit == 1 - normresidual / ||X||")
    E.true(int(L["iteration"]) == 0, "iteration count respects the limit (one sweep)")
    E.eq(O.den(X), xc, "data unchanged")


@ob("C09", params=_params(True), max_paths=20000, wall_s=900, validate=False, env_stub=True,
    bounds="complete runs (maxiters=1) on 2x2 / 2x3 with rank 1: final arrange, sign fixing, printing on/off")
def full_run(E, shape, R, kind, dimorder, optdims, init, printitn, fixsigns):
    """complete one-sweep runs: normal form of the returned model, reported fit / residual recomputed from it, bookkeeping"""
    N = len(shape)
    X, xc = _data(E, shape, kind)
    normsq = O.ref_sumsq(xc)
    K0 = snap = None
    if init == "given":
        K0 = O.kruskal(E, "g", shape, R)
        snap = (O.cells(K0.weights), [O.cells(f) for f in K0.factor_matrices])
    state, rng, nv, sv = _run(E, X, R, dimorder, optdims, K0 if init == "given" else init, printitn, fixsigns, cut=False)
    M, Minit, out = state["result"]
    _check_init(E, init, Minit, K0, snap, rng, nv, xc, shape, R)
    dm = O.den(M)
    fm = [O.cells(np.asarray(f)) for f in M.factor_matrices]
    nr, fit = out["normresidual"], out["fit"]
    ip = O.ref_innerprod(xc, dm)
    msq = O.ref_sumsq(dm)
    if kind == "sumtensor":
        E.eq(nr, msq - 2 * ip, "sum-tensor data: reported value is ||M||^2 - 2<X,M>")
        E.eq(fit, nr, "sum-tensor data: fit reports the same value")
    else:
        E.hint_sumsq(xc - dm)
        d = normsq + msq - 2 * ip
        E.eq(nr * nr, d if (d >= 0) else -d, "normresidual^2 == ||X - M||^2 recomputed from the returned model")
        E.eq((1 - fit) * _sqrt(E, normsq), nr, "fit == 1 - normresidual / ||X||")
    E.true(int(out["iters"]) == 0, "iteration count respects the limit (one sweep)", f"{out['iters']}")
    E.true(M.ncomponents == R and M.shape == tuple(shape), "rank and shape of the returned model")
    for r in range(R):
        E.true(M.weights[r] >= 0, "weights non-negative")
    for r in range(R - 1):
        E.true(M.weights[r] >= M.weights[r + 1], "weights in decreasing order")
    for n in range(N):
        for r in range(R):
            col = [fm[n][i, r] for i in range(shape[n])]
            if all(not (v != 0) for v in col):
                continue
            sq = 0.0
            for v in col:
                sq = sq + v * v
            E.eq(sq, 1.0, "unit 2-norm columns")
    E.eq(O.den(X), xc, "data unchanged")


def _key(x):
    from symx import core
    return core.sym_value(x) if core.is_sym(x) else x
