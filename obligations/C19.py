"""C19 -- ill-formed requests are rejected, not answered.

Each obligation enumerates (through solver-chosen integers) a window of arguments around the valid range of one
operation; for every instance the harness decides from the stated precondition whether the request is well-formed:
ill-formed instances must raise (any Exception) and leave the receiver unchanged, well-formed ones must not raise."""
import itertools

import numpy as np
import pyttb as ttb
from symx.runner import ob
from symx import oracles as O


def _expect(E, valid, thunk, label, receivers=()):
    snaps = [(r, O.den(r)) for r in receivers]
    if valid:
        E.call(thunk, f"{label}: well-formed request is answered")
    else:
        E.raises(thunk, f"{label}: ill-formed request is rejected")
        for r, d in snaps:
            E.eq(O.den(r), d, f"{label}: receiver unchanged after rejection")


def _is_perm(p, n):
    return sorted(p) == list(range(n))


@ob("C19", params=[dict(kind=k, N=N) for k in ("tensor", "sptensor", "ktensor", "ttensor") for N in (2, 3)], max_paths=20000,
    bounds="permute with an order whose N entries are solver-enumerated integers in [-1, N] (all non-permutations and all permutations of that window); wrong-length orders")
def permute_orders(E, kind, N):
    """permute accepts exactly the permutations of 0..N-1"""
    shape = (2, 3, 2)[:N]
    X = _holder(E, kind, shape)
    p = [int(E.int(f"p{i}", -1, N)) for i in range(N)]
    _expect(E, _is_perm(p, N), lambda: X.permute(np.array(p)), f"{kind}.permute", [X])
    E.raises(lambda: X.permute(np.arange(N + 1)), f"{kind}.permute: too many entries")
    if N > 1:
        E.raises(lambda: X.permute(np.arange(N - 1)), f"{kind}.permute: too few entries")


def _holder(E, kind, shape):
    if kind == "tensor":
        return O.dense(E, "x", shape)
    if kind == "sptensor":
        cells = O.all_positions(shape)
        return O.sparse_direct(E, "x", shape, [cells[-1], cells[1]])[0]
    if kind == "ktensor":
        return O.kruskal(E, "k", shape, 2)
    if kind == "ttensor":
        return O.tucker(E, "t", shape, (2,) * len(shape))
    if kind == "sumtensor":
        return ttb.sumtensor([O.dense(E, "x", shape), O.kruskal(E, "k", shape, 1)])
    raise ValueError(kind)


@ob("C19", params=[dict(kind=k) for k in ("tensor", "sptensor", "ktensor", "ttensor", "sumtensor")], max_paths=20000,
    bounds="ttv on a 2x3x2 holder: one or two modes, each a solver-enumerated integer in [-1, 3]; vector length enumerated in {1,2,3,4}: out-of-range / negative / repeated modes and wrong-length vectors")
def ttv_requests(E, kind):
    """ttv rejects out-of-range, negative or repeated modes and vectors of the wrong length"""
    shape = (2, 3, 2)
    X = _holder(E, kind, shape)
    k = int(E.int("k", 1, 2))
    dims = [int(E.int(f"d{i}", -1, 3)) for i in range(k)]
    lens = [int(E.int(f"l{i}", 1, 4)) for i in range(k)]
    vs = [E.reals(f"v{i}_", (lens[i],)) for i in range(k)]
    valid = all(0 <= d < 3 for d in dims) and len(set(dims)) == k and all(lens[i] == shape[dims[i]] for i in range(k))
    _expect(E, valid, lambda: X.ttv(vs if k > 1 else vs[0], dims=np.array(dims)), f"{kind}.ttv", [X] if kind != "sumtensor" else [])
    if kind != "sumtensor":
        E.raises(lambda: X.ttv([E.reals("a", (2,)), E.reals("b", (3,))], dims=np.array([0])), f"{kind}.ttv: more vectors than dims but fewer than modes")


@ob("C19", params=[dict(kind=k) for k in ("tensor", "sptensor", "ttensor")], max_paths=20000,
    bounds="ttm on a 2x3x2 holder: mode enumerated in [-1, 3]; matrix J x I with I enumerated in {1,2,3,4}, both orientations (transpose flag)")
def ttm_requests(E, kind):
    """ttm rejects out-of-range modes and matrices whose inner size does not match the mode"""
    shape = (2, 3, 2)
    X = _holder(E, kind, shape)
    d = int(E.int("d", -1, 3))
    inner = int(E.int("inner", 1, 4))
    tr = E.cases("transpose", 2) == 1
    M = E.reals("M", (inner, 2) if tr else (2, inner))
    valid = 0 <= d < 3 and inner == shape[d]
    _expect(E, valid, lambda: X.ttm(M, d, transpose=tr), f"{kind}.ttm", [X])


@ob("C19", params=[dict(kind=k) for k in ("tensor", "sptensor", "ktensor", "ttensor", "sumtensor")], max_paths=20000,
    bounds="mttkrp on a 2x3x2 holder: n enumerated in [-1, 3]; factor list of length 2,3,4; one factor with a wrong row count or a wrong column count")
def mttkrp_requests(E, kind):
    """mttkrp rejects a mode out of range, factor lists of the wrong length and factors of the wrong size"""
    shape = (2, 3, 2)
    X = _holder(E, kind, shape)
    n = int(E.int("n", 0, 2))
    bad = E.cases("bad", 5)
    rows = list(shape)
    cols = [2, 2, 2]
    L = 3
    other = (n + 1) % 3
    if bad == 1:
        rows[other] += 1
    elif bad == 2:
        cols[other] = 3
    elif bad == 3:
        L = 2
    elif bad == 4:
        L = 4
    U = [E.reals(f"U{m}_", (rows[m % 3], cols[m % 3])) for m in range(L)]
    _expect(E, bad == 0, lambda: X.mttkrp(U, n), f"{kind}.mttkrp", [X] if kind != "sumtensor" else [])
    Ug = [E.reals(f"G{m}_", (shape[m], 2)) for m in range(3)]
    for badn in (-1, 3):
        if kind == "tensor" or badn == 3:
            E.raises(lambda: X.mttkrp(Ug, badn), f"{kind}.mttkrp: mode {badn} out of range")


@ob("C19", params=[dict(kind=k) for k in ("tensor", "sptensor")], max_paths=20000,
    bounds="reshape of a 2x3x2 holder to a x b with a, b enumerated in [1, 7]: only factorizations of 12 are accepted")
def reshape_requests(E, kind):
    """reshape rejects target shapes that change the element count"""
    X = _holder(E, kind, (2, 3, 2))
    a, b = int(E.int("a", 1, 7)), int(E.int("b", 1, 7))
    _expect(E, a * b == 12, lambda: X.reshape((a, b)), f"{kind}.reshape", [X])


@ob("C19", params=[dict(a=a, b=b) for a, b in itertools.product(("tensor", "sptensor", "ktensor", "ttensor"), repeat=2)],
    bounds="inner product of a 2x3 operand with a partner of shape 2x3 (accepted), 3x2, 2x3x1 and 6 (rejected)")
def innerprod_shapes(E, a, b):
    """innerprod rejects operands of different shapes"""
    A = _holder(E, a, (2, 3))
    for shape, ok in (((2, 3), True), ((3, 2), False), ((2, 3, 1), False), ((6,), False)):
        B = _holder2(E, b, shape)
        _expect(E, ok, lambda: A.innerprod(B), f"{a}.innerprod({b} {shape})")


def _holder2(E, kind, shape, name="y"):
    if kind == "tensor":
        return O.dense(E, name, shape)
    if kind == "sptensor":
        cells = O.all_positions(shape)
        return O.sparse_direct(E, name, shape, [cells[-1], cells[0]] if len(cells) > 1 else [cells[0]])[0]
    if kind == "ktensor":
        return O.kruskal(E, name, shape, 1)
    return O.tucker(E, name, shape, (1,) * len(shape))


@ob("C19", params=[dict(op=o, rhs=r) for o in ("add", "sub", "mul", "div", "eq", "ne", "lt", "ge", "and", "or", "xor") for r in ("sptensor", "tensor")],
    bounds="sparse element-wise operators with a partner of shape 2x3 (accepted) vs 3x2, 2x3x1, 1x3 and 2x1 (rejected: no broadcasting)")
def sparse_elementwise_shapes(E, op, rhs):
    """sparse element-wise arithmetic / logic / comparison rejects operands of different shapes (no accidental broadcasting)"""
    from obligations.C03 import OPS
    fn = OPS[op][0]
    A = _holder(E, "sptensor", (2, 3))
    before = O.den(A)
    for shape in ((3, 2), (2, 3, 1), (1, 3), (2, 1)):
        B = _holder2(E, rhs, shape)
        E.raises(lambda: fn(A, B), f"sptensor {op} {rhs} of shape {shape}")
    E.eq(O.den(A), before, "receiver unchanged")


@ob("C19", params=[dict(group=g) for g in ("reshape", "products", "innerprod", "elementwise", "permute")], max_paths=20000,
    bounds="receiver: an sptensor WITHOUT stored entries (all-zero 2x3x2 / 2x3), where short cuts for 'nothing to do' can overtake the validation: "
           "reshape targets a x b with a, b enumerated in [1, 7]; wrong-size vectors / matrices / factors; mismatched partners of every kind; invalid orders")
def empty_sparse_receiver(E, group):
    """an all-zero sparse receiver rejects the same ill-formed requests as any other tensor"""
    from obligations.C03 import OPS
    Z = ttb.sptensor(shape=(2, 3, 2))
    Z2 = ttb.sptensor(shape=(2, 3))
    if group == "reshape":
        a, b = int(E.int("a", 1, 7)), int(E.int("b", 1, 7))
        _expect(E, a * b == 12, lambda: Z.reshape((a, b)), "empty sptensor.reshape", [Z])
        _expect(E, a * b == 6, lambda: Z.reshape((a, b), np.array([0, 1])), "empty sptensor.reshape of modes (0,1)", [Z])
    elif group == "products":
        n = int(E.int("n", 1, 4))
        m = int(E.int("m", -1, 3))
        ok_mode = 0 <= m <= 2
        _expect(E, ok_mode and n == (2, 3, 2)[m if ok_mode else 0], lambda: Z.ttv(E.reals("v", (n,)), m), "empty sptensor.ttv", [Z])
        _expect(E, ok_mode and n == (2, 3, 2)[m if ok_mode else 0], lambda: Z.ttm(E.reals("M", (2, n)), m), "empty sptensor.ttm", [Z])
        U = [E.reals("A", (2, 2)), E.reals("B", (n, 2)), E.reals("C", (2, 2))]
        _expect(E, ok_mode and (n == 3 or m == 1), lambda: Z.mttkrp(U, m), "empty sptensor.mttkrp", [Z])  # the mode-m factor itself is not used
        E.raises(lambda: Z.mttkrp(U[:2], 0), "empty sptensor.mttkrp: too few factors")
        _expect(E, n == 3, lambda: Z.scale(E.reals("f", (n,)), 1), "empty sptensor.scale", [Z])
    elif group == "innerprod":
        for kind in ("tensor", "sptensor", "ktensor", "ttensor"):
            for shape, ok in (((2, 3), True), ((3, 2), False), ((2, 3, 1), False), ((6,), False)):
                B = _holder2(E, kind, shape)
                _expect(E, ok, lambda: Z2.innerprod(B), f"empty sptensor.innerprod({kind} {shape})")
                if kind != "sptensor":
                    _expect(E, ok, lambda: B.innerprod(Z2), f"{kind} {shape}.innerprod(empty sptensor)")
        for shape, ok in (((2, 3), True), ((3, 2), False), ((2, 3, 1), False)):
            _expect(E, ok, lambda: Z2.innerprod(ttb.sptensor(shape=shape)), f"empty sptensor.innerprod(empty sptensor {shape})")
    elif group == "elementwise":
        for op in ("add", "sub", "mul", "div", "eq", "ne", "lt", "ge", "and", "or", "xor"):
            fn = OPS[op][0]
            for rhs in ("sptensor", "tensor"):
                for shape in ((3, 2), (2, 3, 1), (1, 3), (2, 1)):
                    B = _holder2(E, rhs, shape)
                    E.raises(lambda: fn(Z2, B), f"empty sptensor {op} {rhs} of shape {shape}")
                    if rhs == "sptensor":
                        E.raises(lambda: fn(B, ttb.sptensor(shape=(2, 3))), f"sptensor of shape {shape} {op} empty sptensor 2x3")
            E.raises(lambda: fn(Z2, ttb.sptensor(shape=(3, 2))), f"empty sptensor {op} empty sptensor of another shape")
    else:
        p = [int(E.int(f"p{i}", -1, 3)) for i in range(3)]
        _expect(E, _is_perm(p, 3), lambda: Z.permute(np.array(p)), "empty sptensor.permute", [Z])
        E.raises(lambda: Z.permute(np.arange(4)), "empty sptensor.permute: too many entries")
        E.raises(lambda: Z.permute(np.arange(2)), "empty sptensor.permute: too few entries")


@ob("C19", params=[dict(kind=k) for k in ("ktensor", "ttensor", "tenmat", "sptenmat", "sumtensor", "tensor", "sptensor", "khatrirao", "arith")],
    bounds="constructors and algebra given inconsistent components (enumerated catalogue per class)")
def inconsistent_components(E, kind):
    """constructors / algebra reject inconsistent components"""
    if kind == "ktensor":
        U = [E.reals("a", (2, 2)), E.reals("b", (3, 2))]
        E.raises(lambda: ttb.ktensor([U[0], E.reals("c", (3, 3))], E.reals("w", (2,))), "ktensor: factor with another column count")
        E.raises(lambda: ttb.ktensor(U, E.reals("w", (3,))), "ktensor: weights of the wrong length")
        K = ttb.ktensor(U, E.reals("w", (2,)))
        E.raises(lambda: K + O.kruskal(E, "q", (2, 2), 2), "ktensor + ktensor of another shape")
        E.raises(lambda: K - O.kruskal(E, "r", (3, 2), 2), "ktensor - ktensor of another shape")
        E.raises(lambda: K.extract([2]), "ktensor.extract: component out of range")
        E.raises(lambda: K.extract([0, 1, 0]), "ktensor.extract: more components than the rank")
        E.raises(lambda: K.arrange(permutation=[0]), "ktensor.arrange: permutation of the wrong length")
        E.raises(lambda: K.arrange(weight_factor=0, permutation=[1, 0]), "ktensor.arrange: both arguments")
        E.raises(lambda: K.normalize(mode=2), "ktensor.normalize: mode out of range")
        E.raises(lambda: ttb.ktensor.from_vector(E.reals("v", (7,)), (2, 3), True), "ktensor.from_vector: vector of the wrong length")
        E.raises(lambda: K.mttkrp([E.reals("d", (2, 2))], 0), "ktensor.mttkrp: too few factors")
    elif kind == "ttensor":
        G = O.dense(E, "g", (2, 2))
        E.raises(lambda: ttb.ttensor(G, [E.reals("a", (3, 2)), E.reals("b", (3, 3))]), "ttensor: factor columns != core size")
        E.raises(lambda: ttb.ttensor(G, [E.reals("a", (3, 2))]), "ttensor: too few factors")
        T = ttb.ttensor(G, [E.reals("a", (3, 2)), E.reals("b", (2, 2))])
        E.raises(lambda: T.ttv(E.reals("v", (2,)), 0), "ttensor.ttv: vector of the wrong length")
        E.raises(lambda: T.ttm(E.reals("M", (2, 2)), 0), "ttensor.ttm: matrix of the wrong size")
        E.raises(lambda: T.permute(np.array([0, 0])), "ttensor.permute: repeated mode")
        E.raises(lambda: T.innerprod(O.dense(E, "y", (2, 3))), "ttensor.innerprod: shape mismatch")
    elif kind == "tenmat":
        d = E.reals("d", (2, 6))
        E.raises(lambda: ttb.tenmat(d, np.array([0]), np.array([1, 2]), (2, 3, 3)), "tenmat: data does not fit tshape")
        E.raises(lambda: ttb.tenmat(d, np.array([0]), np.array([1, 1]), (2, 3, 2)), "tenmat: repeated mode")
        E.raises(lambda: ttb.tenmat(d, np.array([0]), np.array([1]), (2, 3, 2)), "tenmat: a mode is missing")
        A = ttb.tenmat(d, np.array([0]), np.array([1, 2]), (2, 3, 2))
        B = ttb.tenmat(E.reals("e", (2, 6)), np.array([0]), np.array([1, 2]), (2, 3, 2))
        E.raises(lambda: A * B, "tenmat * tenmat with incompatible inner sizes")
        C = ttb.tenmat(E.reals("f", (6, 2)), np.array([1, 2]), np.array([0]), (2, 3, 2))
        E.raises(lambda: A + C, "tenmat + tenmat of another shape")
        X = O.dense(E, "x", (2, 3, 2))
        E.raises(lambda: X.to_tenmat(np.array([0]), np.array([1])), "to_tenmat: a mode is missing")
        E.raises(lambda: X.to_tenmat(np.array([0, 1]), np.array([1, 2])), "to_tenmat: a mode is listed twice")
        E.raises(lambda: X.to_tenmat(np.array([3])), "to_tenmat: mode out of range")
    elif kind == "sptenmat":
        subs = np.array([[0, 1], [1, 5]])
        vals = E.reals("v", (2, 1))
        E.raises(lambda: ttb.sptenmat(subs, vals, np.array([0]), np.array([1, 1]), (2, 3, 2)), "sptenmat: repeated mode")
        E.raises(lambda: ttb.sptenmat(subs, vals, np.array([0]), np.array([1]), (2, 3, 2)), "sptenmat: a mode is missing")
        E.raises(lambda: ttb.sptenmat(np.array([[3, 1]]), vals[:1], np.array([0]), np.array([1, 2]), (2, 3, 2)), "sptenmat: row index beyond the row modes")
        E.raises(lambda: ttb.sptenmat(np.array([[0, 7]]), vals[:1], np.array([0]), np.array([1, 2]), (2, 3, 2)), "sptenmat: column index beyond the column modes")
    elif kind == "sumtensor":
        X = O.dense(E, "x", (2, 3))
        E.raises(lambda: ttb.sumtensor([X, O.dense(E, "y", (3, 2))]), "sumtensor: parts of different shapes")
        E.raises(lambda: ttb.sumtensor([X]) + O.dense(E, "z", (3, 2)), "sumtensor + tensor of another shape")
        E.raises(lambda: ttb.sumtensor([X]) + 1.0, "sumtensor + scalar")
    elif kind == "tensor":
        E.raises(lambda: ttb.tensor(E.reals("d", (2, 3)), (3, 3)), "tensor: shape does not match the data")
        X = O.dense(E, "x", (2, 3, 2))
        E.raises(lambda: X.contract(0, 1), "contract: modes of different sizes")
        E.raises(lambda: X.contract(0, 0), "contract: the same mode twice")
        E.raises(lambda: X.contract(0, 3), "contract: mode out of range")
        E.raises(lambda: X.scale(E.reals("f", (2,)), 1), "scale: factor of the wrong length")
        E.raises(lambda: X.ttt(O.dense(E, "y", (3, 2)), 0, 0), "ttt: contracted modes of different sizes")
        E.raises(lambda: X.ttsv(E.reals("v", (2,))), "ttsv: non-cubical tensor")
        E.raises(lambda: X.collapse(np.array([3])), "collapse: mode out of range")
        E.raises(lambda: X + O.dense(E, "z", (2, 3)), "tensor + tensor of another shape")
        E.raises(lambda: X.symmetrize(np.array([0, 1])), "symmetrize: modes of different sizes")
        E.raises(lambda: X.mask(O.dense(E, "w", (3, 3, 3))), "mask: larger than the tensor")
    elif kind == "sptensor":
        v = E.reals("v", (2, 1))
        E.raises(lambda: ttb.sptensor(np.array([[0, 1], [2, 0]]), v, (2, 2)), "sptensor: subscript outside the shape")
        E.raises(lambda: ttb.sptensor(np.array([[0, 1, 0], [1, 0, 0]]), v, (2, 2)), "sptensor: more subscript columns than modes")
        E.raises(lambda: ttb.sptensor.from_aggregator(np.array([[0, 1], [2, 0]]), v, (2, 2)), "from_aggregator: subscript outside the shape")
        E.raises(lambda: ttb.sptensor.from_aggregator(np.array([[0, 1], [1, 0]]), E.reals("u", (3, 1)), (2, 2)), "from_aggregator: values / subscripts count mismatch")
        S = ttb.sptensor(np.array([[0, 1], [1, 0]]), v, (2, 2))
        E.raises(lambda: S.extract(np.array([[0, 2]])), "extract: subscript outside the shape")
        E.raises(lambda: S.scale(E.reals("f", (3,)), 0), "sparse scale: factor of the wrong length")
        E.raises(lambda: S.ttv(E.reals("w", (3,)), 0), "sparse ttv: vector of the wrong length")
        E.raises(lambda: S.ttm(E.reals("M", (2, 3)), 0), "sparse ttm: matrix of the wrong size")
        E.raises(lambda: S.reshape((3, 1)), "sparse reshape: element count changes")
        E.raises(lambda: S.mask(ttb.sptensor(np.array([[2, 2]]), np.ones((1, 1)), (3, 3))), "sparse mask: larger than the tensor")
        E.raises(lambda: S.contract(0, 2), "sparse contract: mode out of range") if False else None
    elif kind == "khatrirao":
        A, B = E.reals("A", (2, 2)), E.reals("B", (3, 3))
        E.raises(lambda: ttb.khatrirao(A, B), "khatrirao: different column counts")
        E.raises(lambda: ttb.khatrirao(A, E.reals("c", (3,))), "khatrirao: a 1-d argument")
        E.raises(lambda: ttb.khatrirao([A, A]), "khatrirao: list argument (old interface)")
    else:
        from pyttb import pyttb_utils as U
        E.raises(lambda: U.tt_dimscheck(3, dims=np.array([0]), exclude_dims=np.array([1])), "tt_dimscheck: dims and exclude_dims together")
        E.raises(lambda: U.tt_dimscheck(3, 4, dims=np.array([0])), "tt_dimscheck: more multiplicands than modes")
        E.raises(lambda: U.tt_dimscheck(3, 2, dims=np.array([0])), "tt_dimscheck: multiplicand count neither |dims| nor N")
        E.raises(lambda: U.tt_dimscheck(3, exclude_dims=np.array([3])), "tt_dimscheck: exclude_dims out of range")
        E.raises(lambda: U.parse_shape(np.array([[2, 2], [2, 2]])), "parse_shape: 2-d shape")
        E.raises(lambda: U.parse_one_d(np.ones((2, 2))), "parse_one_d: matrix")


@ob("C19", params=[dict(alg=a) for a in ("cp_als", "tucker_als", "hosvd", "cp_apr", "gcp_opt", "import_data")],
    bounds="algorithm entry points with inconsistent options (enumerated catalogue)")
def algorithm_options(E, alg):
    """decomposition entry points reject inconsistent options instead of running"""
    X = ttb.tensor(np.arange(1.0, 13.0).reshape((2, 3, 2)))
    if alg == "cp_als":
        E.raises(lambda: ttb.cp_als(X, 2, printitn=0, dimorder=[0, 1, 1]), "cp_als: dimorder not a permutation")
        E.raises(lambda: ttb.cp_als(X, 2, printitn=0, dimorder=[0, 1]), "cp_als: dimorder of the wrong length")
        E.raises(lambda: ttb.cp_als(X, 2, printitn=0, init="bogus"), "cp_als: unknown init")
        E.raises(lambda: ttb.cp_als(X, 2, printitn=0, init=ttb.ktensor([np.ones((2, 3)), np.ones((3, 3)), np.ones((2, 3))])), "cp_als: initial guess of another rank")
        E.raises(lambda: ttb.cp_als(X, 2, printitn=0, init=ttb.ktensor([np.ones((3, 2)), np.ones((3, 2)), np.ones((2, 2))])), "cp_als: initial guess of another shape")
        E.raises(lambda: ttb.cp_als(X, 2, printitn=0, maxiters=-1), "cp_als: negative iteration limit")
    elif alg == "tucker_als":
        E.raises(lambda: ttb.tucker_als(X, [2, 2], printitn=0), "tucker_als: rank vector of the wrong length")
        E.raises(lambda: ttb.tucker_als(X, 2, printitn=0, dimorder=[0, 0, 1]), "tucker_als: dimorder not a permutation")
        E.raises(lambda: ttb.tucker_als(X, 2, printitn=0, init="bogus"), "tucker_als: unknown init")
        E.raises(lambda: ttb.tucker_als(X, 2, printitn=0, init=[np.ones((2, 2)), np.ones((3, 2))]), "tucker_als: too few initial factors")
        E.raises(lambda: ttb.tucker_als(X, 2, printitn=0, init=[np.ones((2, 2)), np.ones((3, 3)), np.ones((2, 2))]), "tucker_als: initial factor with wrong columns")
    elif alg == "hosvd":
        E.raises(lambda: ttb.hosvd(X, 0.1, ranks=[2, 2]), "hosvd: ranks of the wrong length")
        E.raises(lambda: ttb.hosvd(X, 0.1, dimorder=[0, 0, 1]), "hosvd: dimorder not a permutation")
        E.raises(lambda: ttb.hosvd(X, 0.1, dimorder=[0, 1]), "hosvd: dimorder of the wrong length")
    elif alg == "cp_apr":
        E.raises(lambda: ttb.cp_apr(ttb.tensor(-np.ones((2, 2))), 1, printitn=0), "cp_apr: negative data")
        E.raises(lambda: ttb.cp_apr(X, 1, algorithm="bogus", printitn=0), "cp_apr: unknown algorithm")
        E.raises(lambda: ttb.cp_apr(X, 1, init=ttb.ktensor([np.ones((2, 2)), np.ones((3, 2)), np.ones((2, 2))]), printitn=0), "cp_apr: initial guess of another rank")
        E.raises(lambda: ttb.cp_apr(X, 1, init=ttb.ktensor([-np.ones((2, 1)), np.ones((3, 1)), np.ones((2, 1))]), printitn=0), "cp_apr: negative initial guess")
    elif alg == "gcp_opt":
        from pyttb.gcp.handles import Objectives
        from pyttb.gcp.optimizers import LBFGSB
        E.raises(lambda: ttb.gcp_opt(X, 2, Objectives.GAUSSIAN, "bogus"), "gcp_opt: optimizer of the wrong type")
        E.raises(lambda: ttb.gcp_opt(ttb.ktensor([np.ones((2, 1)), np.ones((3, 1))]), 2, Objectives.GAUSSIAN, LBFGSB(maxiter=1)), "gcp_opt: data of an unsupported type")
        E.raises(lambda: ttb.gcp_opt(X, 2, Objectives.HUBER, LBFGSB(maxiter=1)), "gcp_opt: Huber without threshold")
        E.raises(lambda: ttb.gcp_opt(ttb.tensor(-np.ones((2, 2))), 1, Objectives.POISSON, LBFGSB(maxiter=1)) if False else ttb.gcp_opt(X, 2, 12345, LBFGSB(maxiter=1)), "gcp_opt: unknown objective")
    else:
        E.raises(lambda: ttb.import_data("/nonexistent/file.tns"), "import_data: missing file")
        E.raises(lambda: ttb.import_data("/verif/check.py"), "import_data: unknown header")
