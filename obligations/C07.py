"""C07 -- permute, reshape, squeeze are exact index maps."""
import itertools

import numpy as np
import pyttb as ttb
from symx.runner import ob
from symx import oracles as O


def _inv(p):
    return [int(v) for v in np.argsort(p)]


@ob("C07", params=[dict(shape=(2, 3)), dict(shape=(2, 3, 4)), dict(shape=(2, 2, 3)), dict(shape=(1, 3, 2)), dict(shape=(2, 1, 1)),
                   dict(shape=(4,)), dict(shape=(2, 3, 2, 2), _tier="thorough"), dict(shape=(1, 2, 1, 3), _tier="thorough")],
    bounds="all N! mode orders; data symbolic (pure data movement)")
def permute_dense(E, shape):
    """tensor.permute(p) moves entry i to position (i[p0], i[p1], ...); inverse order restores"""
    X = O.dense(E, "x", shape)
    ref = O.cells(X.data)
    for p in itertools.permutations(range(len(shape))):
        P = X.permute(np.array(p))
        E.true(P.shape == tuple(shape[k] for k in p), f"shape after permute {p}")
        E.eq(P.data, O.ref_permute(ref, p), f"permute {p}")
        E.eq(P.permute(np.array(_inv(p))).data, ref, f"permute {p} then inverse")
    E.eq(O.cells(X.data), ref, "receiver unchanged")


def _sp_params():
    out = []
    for shape, npos, tier in [((2, 3), 2, "quick"), ((2, 3, 2), 3, "quick"), ((2, 2, 3), 3, "thorough"), ((1, 3, 2), 3, "thorough"),
                              ((2, 2, 2, 2), 3, "thorough")]:
        cells = O.all_positions(shape)
        pos = [cells[1], cells[-1], cells[len(cells) // 2]][:npos]
        for order in itertools.permutations(range(npos)):
            out.append(dict(shape=shape, pos=tuple(pos), order=order, _tier=tier))
    return out


@ob("C07", params=_sp_params(), bounds="sparse nnz<=3 symbolic non-zero values, every stored order; all N! mode orders")
def permute_sparse(E, shape, pos, order):
    """sptensor.permute agrees with the index formula and with the dense result"""
    S, pv = O.sparse_direct(E, "v", shape, pos, order)
    ref = O.sparse_ref(shape, pv)
    for p in itertools.permutations(range(len(shape))):
        P = S.permute(np.array(p))
        O.wellformed(E, P, f"permute {p}")
        E.true(P.shape == tuple(shape[k] for k in p), "shape")
        E.eq(O.den(P), O.ref_permute(ref, p), f"sparse permute {p}")
        E.eq(O.den(P.permute(np.array(_inv(p)))), ref, "inverse")


@ob("C07", params=[dict(shape=(2, 2)), dict(shape=(1, 3)), dict(shape=(2, 1, 2)), dict(shape=(2, 3), _tier="thorough")],
    bounds="sparse obtained from a dense symbolic tensor: every sparsity pattern by forks")
def permute_reshape_sparse_patterns(E, shape):
    """permute / reshape / squeeze of to_sptensor(X) equal those of X for every sparsity pattern"""
    X = O.dense(E, "x", shape)
    ref = O.cells(X.data)
    S = X.to_sptensor()
    for p in itertools.permutations(range(len(shape))):
        P = S.permute(np.array(p))
        O.wellformed(E, P, f"permute {p}")
        E.eq(O.den(P), O.ref_permute(ref, p), f"permute {p}")
    n = int(np.prod(shape))
    for ns in O.factorizations(n, 3):
        Rr = S.reshape(ns)
        O.wellformed(E, Rr, f"reshape {ns}")
        E.true(Rr.shape == tuple(ns), "shape")
        E.eq(O.den(Rr), O.ref_reshape(ref, ns), f"reshape {ns}")
    sq = S.squeeze()
    keep = tuple(s for s in shape if s != 1)
    if keep:
        E.eq(O.den(sq) if not isinstance(sq, (int, float)) else sq, O.ref_reshape(ref, keep), "squeeze")


@ob("C07", params=[dict(shape=(2, 3), R=2), dict(shape=(2, 3, 2), R=2), dict(shape=(2, 1, 3), R=1)],
    bounds="Kruskal / Tucker holders, symbolic components, all N! orders")
def permute_kruskal_tucker(E, shape, R):
    """ktensor.permute / ttensor.permute denote the permuted array"""
    K = O.kruskal(E, "k", shape, R)
    T = O.tucker(E, "t", shape, tuple(min(2, s) for s in shape))
    dk, dt = O.den(K), O.den(T)
    for p in itertools.permutations(range(len(shape))):
        KP = K.permute(np.array(p))
        E.true(KP.shape == tuple(shape[k] for k in p), "ktensor shape")
        E.eq(O.den(KP), O.ref_permute(dk, p), f"ktensor.permute {p}")
        E.eq(O.den(KP.permute(np.array(_inv(p)))), dk, "ktensor inverse")
        TP = T.permute(np.array(p))
        E.true(TP.shape == tuple(shape[k] for k in p), "ttensor shape")
        E.eq(O.den(TP), O.ref_permute(dt, p), f"ttensor.permute {p}")
        E.eq(O.den(TP.permute(np.array(_inv(p)))), dt, "ttensor inverse")
    E.eq(O.den(K), dk, "receiver unchanged (ktensor)")
    E.eq(O.den(T), dt, "receiver unchanged (ttensor)")


@ob("C07", params=[dict(shape=(2, 3)), dict(shape=(2, 3, 4)), dict(shape=(2, 2, 3)), dict(shape=(4, 1, 3)), dict(shape=(6,)),
                   dict(shape=(2, 3, 2, 2), _tier="thorough")],
    bounds="every factorization of the element count (<=24) into <=4 factors as target shape")
def reshape_dense(E, shape):
    """tensor.reshape keeps every entry at its linear (first-index-fastest) position; reshaping back restores"""
    X = O.dense(E, "x", shape)
    ref = O.cells(X.data)
    n = int(np.prod(shape))
    for ns in O.factorizations(n, 4):
        Rr = X.reshape(ns)
        E.true(Rr.shape == tuple(ns), "shape")
        E.eq(Rr.data, O.ref_reshape(ref, ns), f"reshape {ns}")
        E.eq(Rr.reshape(shape).data, ref, f"reshape {ns} and back")
    E.eq(O.cells(X.data), ref, "receiver unchanged")


def _rs_params():
    out = []
    for shape, tier in [((2, 3, 2), "quick"), ((3, 2, 2), "quick"), ((2, 2, 3), "thorough"), ((2, 3, 2, 2), "thorough")]:
        cells = O.all_positions(shape)
        pos = (cells[1], cells[-1], cells[len(cells) // 2])
        for order in [(0, 1, 2), (2, 0, 1), (1, 2, 0)]:
            out.append(dict(shape=shape, pos=pos, order=order, _tier=tier))
    return out


@ob("C07", params=_rs_params(), bounds="sparse nnz=3, 3 stored orders; all target factorizations; every ordered subset of modes as old_modes")
def reshape_sparse(E, shape, pos, order):
    """sptensor.reshape (all modes, and a subset of modes moved to the end) follows the index formula"""
    S, pv = O.sparse_direct(E, "v", shape, pos, order)
    ref = O.sparse_ref(shape, pv)
    n = int(np.prod(shape))
    for ns in O.factorizations(n, 3):
        Rr = S.reshape(ns)
        O.wellformed(E, Rr, f"reshape {ns}")
        E.eq(O.den(Rr), O.ref_reshape(ref, ns), f"reshape {ns}")
        E.eq(O.den(Rr.reshape(shape)), ref, "and back")
    N = len(shape)
    for k in range(1, N + 1):
        for om in itertools.permutations(range(N), k):
            m = int(np.prod([shape[i] for i in om]))
            for ns in O.factorizations(m, 2):
                Rr = S.reshape(ns, old_modes=np.array(om))
                O.wellformed(E, Rr, f"reshape {ns} old_modes={om}")
                E.eq(O.den(Rr), O.ref_reshape_modes(ref, ns, om), f"reshape {ns} of modes {om}")
    E.eq(O.den(S), ref, "receiver unchanged")


@ob("C07", params=[dict(shape=(2, 1, 3)), dict(shape=(1, 3)), dict(shape=(1, 1)), dict(shape=(1,)), dict(shape=(2, 2)),
                   dict(shape=(1, 2, 1, 2), _tier="thorough")],
    bounds="dense symbolic data and its sparse twin (patterns by forks)")
def squeeze(E, shape):
    """squeeze removes exactly the singleton modes; all-singleton gives the scalar entry"""
    X = O.dense(E, "x", shape)
    ref = O.cells(X.data)
    keep = tuple(s for s in shape if s != 1)
    sq = X.squeeze()
    S = X.to_sptensor()
    ssq = S.squeeze()
    if keep:
        E.true(isinstance(sq, ttb.tensor) and sq.shape == keep, "dense squeeze shape")
        E.eq(sq.data, O.ref_reshape(ref, keep), "dense squeeze")
        E.true(isinstance(ssq, ttb.sptensor) and ssq.shape == keep, "sparse squeeze shape")
        O.wellformed(E, ssq, "sparse squeeze")
        E.eq(O.den(ssq), O.ref_reshape(ref, keep), "sparse squeeze")
    else:
        E.eq(sq, ref.ravel()[0], "dense all-singleton squeeze is the scalar")
        E.eq(ssq, ref.ravel()[0], "sparse all-singleton squeeze is the scalar")
