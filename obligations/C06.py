"""C06 -- sparse results are well-formed and independent of the stored order of nonzeros.

The well-formedness monitor (oracles.wellformed) is attached to every sparse result in C01-C04, C07,
C20; this file adds the order-independence runs: every operand is supplied in every stored order and
each run is compared with the same order-free reference (hence with each other)."""
import itertools

import numpy as np
import pyttb as ttb
from symx.runner import ob
from symx import oracles as O
from obligations.C03 import OPS, binop_body, _judge, _ref, _t

SHAPE = (2, 2)
LP = ((0, 1), (1, 0), (1, 1))  # stored entries of the left operand
RP = ((1, 1), (0, 1))          # right operand: overlaps the left one in two cells, one cell only-left


def _pairs():
    out = []
    for op in OPS:
        for lo in itertools.permutations(range(3)):
            for ro in itertools.permutations(range(2)):
                tier = "quick" if (lo, ro) in (((0, 1, 2), (0, 1)), ((2, 0, 1), (1, 0)), ((1, 2, 0), (0, 1)), ((2, 1, 0), (1, 0))) else "thorough"
                out.append(dict(op=op, lo=lo, ro=ro, _tier=tier))
    return out


@ob("C06", params=_pairs(), bounds="2x2; left operand 3 stored non-zero symbolic values, right operand 2 (overlapping), every stored order of both (Q: 4 of the 12 combinations)")
def binop_orders(E, op, lo, ro):
    """sptensor (op) sptensor gives the same well-formed result for every stored order of either operand"""
    binop_body(E, op, "sparse", SHAPE, lhs="direct", lpos=LP, lorder=lo, rpos=RP, rorder=ro)


@ob("C06", params=[dict(op=op, rhs=rhs, lo=lo) for op in OPS for rhs in ("dense", "scalar") for lo in [(0, 1, 2), (2, 0, 1), (1, 2, 0)]],
    bounds="2x2; left operand 3 stored values in 3 stored orders; dense / scalar right-hand side symbolic")
def binop_orders_mixed(E, op, rhs, lo):
    """sptensor (op) tensor|scalar for every stored order"""
    binop_body(E, op, rhs, SHAPE, lhs="direct", lpos=LP, lorder=lo)


def _ord3():
    return [dict(order=o) for o in itertools.permutations(range(3))]


@ob("C06", params=_ord3(), bounds="2x3 sptensor with 3 stored values in every order; mask with 2-3 entries in both orders; subscripts to extract in 2 orders")
def lookups(E, order):
    """mask / extract / subscript reads return the values of the positions asked for, whatever the stored orders"""
    shape = (2, 3)
    pos = ((0, 1), (1, 2), (1, 0))
    S, pv = O.sparse_direct(E, "x", shape, pos, order)
    ref = O.sparse_ref(shape, pv)
    for wpos in ([(1, 2), (0, 0), (0, 1)], [(0, 1), (1, 2)], [(1, 0), (1, 2), (0, 1)], [(0, 2)]):
        for worder in (list(range(len(wpos))), list(range(len(wpos)))[::-1]):
            wp = [wpos[i] for i in worder]
            W = ttb.sptensor(np.array(wp), np.ones((len(wp), 1)), shape)
            ok, got = E.call(lambda: S.mask(W), f"mask W={wpos} order={worder}")
            if ok:
                wsubs, _ = W.find()
                E.eq(got, np.array([[ref[tuple(r)]] for r in wsubs.tolist()], dtype=object), f"mask W={wpos} order={worder}")
            q = np.array(wp)
            E.eq(S.extract(q), np.array([[ref[tuple(r)]] for r in wp], dtype=object), f"extract {wp}")
            got = S[q]  # (a single subscript row gives a scalar by design: compare values only)
            E.eq(np.asarray(got, dtype=object).reshape(-1), [ref[tuple(r)] for r in wp], f"S[subs] {wp}")


@ob("C06", params=_ord3(), bounds="2x3 sptensor with 3 stored values in every order")
def structure_ops(E, order):
    """find / copy / squash / sptenmat constructor (copy on/off) keep one value per subscript and the same array"""
    shape = (3, 4)
    pos = ((0, 3), (2, 1), (2, 3))
    S, pv = O.sparse_direct(E, "x", shape, pos, order)
    ref = O.sparse_ref(shape, pv)
    subs, vals = S.find()
    E.true(subs.shape[0] == 3 and vals.shape == (3, 1), "find() sizes")
    for r in range(3):
        E.eq(vals[r, 0], ref[tuple(subs[r])], "find() pairs")
    C = S.copy()
    O.wellformed(E, C, "copy")
    E.eq(O.den(C), ref, "copy")
    Q = S.squash()
    O.wellformed(E, Q, "squash")
    # squash renumbers the used indices of every mode preserving their order
    used = [sorted({p[k] for p in pos}) for k in range(2)]
    sq = {tuple(used[k].index(p[k]) for k in range(2)): pv[p] for p in pos}
    E.true(all(Q.shape[k] >= len(used[k]) for k in range(2)), "squash shape holds all used indices")
    E.eq(O.den(Q), O.sparse_ref(Q.shape, sq), "squash")
    M = S.to_sptenmat(np.array([1]), np.array([0]))
    for copy in (True, False):
        M2 = ttb.sptenmat(M.subs, M.vals, M.rdims, M.cdims, M.tshape, copy=copy)
        O.wellformed(E, M2, f"sptenmat(copy={copy})")
        E.eq(O.den(M2), ref, f"sptenmat constructor copy={copy}")
    # duplicates handed to the copying constructor are summed
    dsubs = np.vstack([M.subs, M.subs[:1]])
    dvals = np.vstack([M.vals, M.vals[:1]])
    M3 = ttb.sptenmat(dsubs, dvals, M.rdims, M.cdims, M.tshape, copy=True)
    O.wellformed(E, M3, "sptenmat(copy=True) with a duplicate")
    ref3 = ref.copy()
    p0 = (int(np.asarray(M.subs)[0, 1]), int(np.asarray(M.subs)[0, 0]))  # (col, row) of M's first entry = tensor position
    ref3[p0] = ref3[p0] + ref3[p0]
    E.eq(O.den(M3), ref3, "duplicates summed by the copying sptenmat constructor")


def _sparse_or_dense(E, got, ref, label):
    if isinstance(got, ttb.sptensor):
        O.wellformed(E, got, label)
    E.eq(O.den(got) if isinstance(got, (ttb.sptensor, ttb.tensor)) else got, ref, label)


@ob("C06", params=[dict(shape=sh, order=o, op=op, big=b) for sh in ((4, 2), (4, 1, 2)) for o in itertools.permutations(range(3))
                   for op in ("ttv", "ttm", "collapse", "scale") for b in (False, True)], max_paths=3000,
    bounds="sptensor with 3 stored symbolic values (two in one fibre of every mode) in every stored order; unconstrained symbolic multiplicands, "
           "so fibres whose products are individually non-zero but cancel exactly, zero multiplicand entries and sparse / dense hand-back are all reached by forks")
def reductions_cancel(E, shape, order, op, big):
    """ttv / ttm / collapse / scale: no explicit zero, no duplicate, right nnz when the contributions to a result position cancel exactly; same result for every stored order"""
    N = len(shape)
    mb = [m for m in range(N) if shape[m] == 4][0]
    ms = [m for m in range(N) if shape[m] == 2][0]

    def at(b, s_):
        p = [0] * N
        p[mb], p[ms] = b, s_
        return tuple(p)
    pos = (at(2, 0), at(0, 1), at(2, 1))
    S, pv = O.sparse_direct(E, "x", shape, pos, order)
    ref = O.sparse_ref(shape, pv)
    m = mb if big else ms
    if op == "ttv":
        v = E.reals("v", (shape[m],))
        _sparse_or_dense(E, S.ttv(v, m), O.ref_ttv(ref, {m: v}), f"ttv mode {m}")
    elif op == "ttm":
        M = E.reals("M", (1, shape[m]))
        _sparse_or_dense(E, S.ttm(M, m), O.ref_ttm(ref, {m: M}), f"ttm mode {m}")
    elif op == "collapse":
        _sparse_or_dense(E, S.collapse(np.array([m])), O.ref_collapse(ref, [m]), f"collapse mode {m}")
    else:
        f = E.reals("f", (shape[m],))
        _sparse_or_dense(E, S.scale(f, m), O.ref_scale(ref, f, [m]), f"scale mode {m}")
        F = ttb.tensor(f, copy=False) if not E.sym else ttb.tensor(f)
        _sparse_or_dense(E, S.scale(F, m), O.ref_scale(ref, f, [m]), f"scale by a dense tensor, mode {m}")


@ob("C06", params=[dict(order=o, key=k) for o in itertools.permutations(range(3)) for k in range(4)],
    bounds="2x4 sptenmat (copy=False) with 3 stored symbolic values in every stored order; one assignment M[i, j] = v that overwrites, appends at the end, or inserts in front of two stored entries")
def sptenmat_setitem(E, order, key):
    """sptenmat.__setitem__: the assigned cell changes, every other cell keeps its value, whatever the stored order"""
    tshape = (2, 4)
    pos = ((0, 1), (1, 2), (1, 3))
    vals = [E.real(f"x{i}", nonzero=True) for i in range(3)]
    subs = np.array([pos[i] for i in order])
    v = _col(E, [vals[i] for i in order])
    M = ttb.sptenmat(subs, v, np.array([0]), np.array([1]), tshape, copy=False)
    ref = O.zeros(tshape)
    for p, x in zip(pos, vals):
        ref[p] = x
    E.eq(O.den(M), ref, "sptenmat denotes its entries")
    target = [(1, 2), (1, 0) if False else (0, 0), (1, 3), (0, 3)][key]
    w = E.real("w", nonzero=True)
    M[target[0], target[1]] = w
    ref[target] = w
    O.wellformed(E, M, "sptenmat after assignment")
    E.eq(O.den(M), ref, f"sptenmat after M[{target}] = w")


def _col(E, vals):
    from symx import npenv
    if E.sym:
        return npenv.obj_array(vals, (len(vals), 1))
    return np.array(vals, dtype=float).reshape(len(vals), 1)
