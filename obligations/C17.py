"""C17 -- index arithmetic, row-set helpers, Khatri-Rao."""
import numpy as np
import pyttb as ttb
from pyttb import pyttb_utils as U
from symx.runner import ob
from symx import oracles as O

SHAPES = [(2, 3), (3, 2, 2), (2, 1, 3), (4,), (3, 4, 5, 2)]


@ob("C17", params=[dict(shape=s) for s in SHAPES],
    bounds="subscripts symbolic ints over the whole shape; F order; one row")
def sub2ind_formula(E, shape):
    """tt_sub2ind == sum_k s_k prod_{j<k} n_j, in range, and tt_ind2sub inverts it"""
    sub = [E.int(f"s{k}", 0, n - 1) for k, n in enumerate(shape)]
    subs = O.int_rows([sub])
    idx = U.tt_sub2ind(shape, subs)
    ref = 0
    stride = 1
    for k, n in enumerate(shape):
        ref = ref + sub[k] * stride
        stride *= n
    E.eq(idx, [ref], "linear index formula")
    E.true((idx[0] >= 0) & (idx[0] < int(np.prod(shape))), "index in range")
    back = U.tt_ind2sub(shape, idx)
    E.eq(back, O.int_rows([sub]), "ind2sub(sub2ind(s)) == s")


@ob("C17", params=[dict(shape=s) for s in SHAPES],
    bounds="linear index symbolic int over 0..size-1")
def ind2sub_roundtrip(E, shape):
    """tt_ind2sub gives subscripts inside the shape and tt_sub2ind inverts it"""
    size = int(np.prod(shape))
    i = E.int("i", 0, size - 1)
    subs = U.tt_ind2sub(shape, O.int_vec([i]))
    for k, n in enumerate(shape):
        E.true((subs[0, k] >= 0) & (subs[0, k] < n), f"subscript {k} in range")
    E.eq(U.tt_sub2ind(shape, subs), [i], "sub2ind(ind2sub(i)) == i")
