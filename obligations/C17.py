"""C17 -- index arithmetic, row-set helpers, Khatri-Rao."""
import numpy as np
import pyttb as ttb
from pyttb import pyttb_utils as U
from symx.runner import ob
from symx import oracles as O

SHAPES = [(2, 3), (3, 2, 2), (2, 1, 3), (4,), (3, 4, 5, 2)]


@ob("C17", params=[dict(shape=s) for s in SHAPES],
    bounds="subscripts symbolic ints over the whole shape; F order; one row")
def sub2ind_formula(E, shape):
    """tt_sub2ind == sum_k s_k prod_{j<k} n_j, in range, and tt_ind2sub inverts it"""
    sub = [E.int(f"s{k}", 0, n - 1) for k, n in enumerate(shape)]
    subs = O.int_rows([sub])
    idx = U.tt_sub2ind(shape, subs)
    ref = 0
    stride = 1
    for k, n in enumerate(shape):
        ref = ref + sub[k] * stride
        stride *= n
    E.eq(idx, [ref], "linear index formula")
    E.true((idx[0] >= 0) & (idx[0] < int(np.prod(shape))), "index in range")
    back = U.tt_ind2sub(shape, idx)
    E.eq(back, O.int_rows([sub]), "ind2sub(sub2ind(s)) == s")


@ob("C17", params=[dict(shape=s) for s in SHAPES],
    bounds="linear index symbolic int over 0..size-1")
def ind2sub_roundtrip(E, shape):
    """tt_ind2sub gives subscripts inside the shape and tt_sub2ind inverts it"""
    size = int(np.prod(shape))
    i = E.int("i", 0, size - 1)
    subs = U.tt_ind2sub(shape, O.int_vec([i]))
    for k, n in enumerate(shape):
        E.true((subs[0, k] >= 0) & (subs[0, k] < n), f"subscript {k} in range")
    E.eq(U.tt_sub2ind(shape, subs), [i], "sub2ind(ind2sub(i)) == i")


def _rows_eq(a, b):
    return all(bool(x == y) for x, y in zip(a, b))


def _member(r, rows):
    return any(_rows_eq(r, q) for q in rows)


def _sym_rows(E, name, nrows, ncols, hi):
    rows = [[E.int(f"{name}{i}_{j}", 0, hi) for j in range(ncols)] for i in range(nrows)]
    return rows, (O.int_rows(rows) if nrows else np.empty((0, ncols), dtype=int))


def _distinct(rows):
    return all(not _rows_eq(rows[i], rows[j]) for i in range(len(rows)) for j in range(i))


@ob("C17", params=[dict(ra=ra, rb=rb) for ra in range(0, 4) for rb in range(0, 3)], max_paths=30000,
    bounds="integer row matrices with ra x 2 and rb x 2 symbolic entries in [0,1] (so repeated rows and all overlap patterns occur), ra<=3, rb<=2, empty operands")
def row_helpers(E, ra, rb):
    """ismember / intersect / setdiff / union on rows equal set algebra on rows; indices refer to the first operand"""
    A_rows, A = _sym_rows(E, "a", ra, 2, 1)
    B_rows, B = _sym_rows(E, "b", rb, 2, 1)
    # ismember: for every search row the index of an equal source row (or -1)
    matched, loc = U.tt_ismember_rows(A, B)
    E.true(len(matched) == ra and len(loc) == ra, "ismember sizes")
    for i, r in enumerate(A_rows):
        m = _member(r, B_rows)
        E.true(bool(matched[i]) == m, "ismember flag")
        li = int(loc[i])
        if m:
            E.true(0 <= li < rb and _rows_eq(B_rows[li], r), "ismember location points at an equal row")
        else:
            E.true(li == -1, "ismember location is -1 for a missing row")
    if ra and rb:
        un = U.tt_union_rows(A, B)
        un_rows = [list(r) for r in np.asarray(un).tolist()]
        E.true(_distinct(un_rows), "union_rows: no repeated row")
        E.true(all(_member(r, un_rows) for r in A_rows + B_rows), "union_rows: contains every row of A and B")
        E.true(all(_member(r, A_rows + B_rows) for r in un_rows), "union_rows: contains nothing else")
    if not (_distinct(A_rows) and _distinct(B_rows)):
        return  # index-returning helpers are specified (and used by pyttb) on duplicate-free row lists; the index spaces differ once A repeats a row
    inter = [int(i) for i in U.tt_intersect_rows(A, B)]
    want = [i for i, r in enumerate(A_rows) if _member(r, B_rows)]
    E.true(sorted(inter) == want, "intersect_rows: indices into A of the rows also in B", f"{inter} vs {want}")
    diff = [int(i) for i in U.tt_setdiff_rows(A, B)]
    wantd = [i for i, r in enumerate(A_rows) if not _member(r, B_rows)]
    E.true(sorted(diff) == wantd, "setdiff_rows: indices into A of the rows not in B", f"{diff} vs {wantd}")


@ob("C17", params=[dict(N=N) for N in (1, 2, 3)] + [dict(N=4, _tier="thorough")], max_paths=60000,
    bounds="N<=3 (T:4); dims / exclude_dims of every length 1..N with every entry a solver-enumerated integer in [-1, N]; M in {None, |dims|, N}")
def dimscheck(E, N):
    """tt_dimscheck returns the sorted selection (or complement) and the multiplicand index of each; ill-formed arguments raise"""
    L = int(E.int("len", 1, N))
    d = [int(E.int(f"d{i}", -1, N)) for i in range(L)]
    excl = E.cases("exclude", 2) == 1
    mform = E.cases("mform", 3)
    valid = all(0 <= x < N for x in d) and len(set(d)) == L
    sel = sorted(d) if not excl else [m for m in range(N) if m not in d]
    P = len(sel)
    M = None if mform == 0 else (P if mform == 1 else N)
    kw = dict(exclude_dims=np.array(d)) if excl else dict(dims=np.array(d))
    if not valid:
        # (the helper itself promises rejection only of negative dims and of out-of-range exclude_dims;
        #  out-of-range / repeated dims are rejected by the public operations -- C19)
        if any(x < 0 for x in d) or (excl and any(x >= N for x in d)):
            E.raises(lambda: U.tt_dimscheck(N, M, **kw), f"negative / out-of-range {'exclude_dims' if excl else 'dims'} rejected")
        return
    if M is not None and P == 0:
        return
    ok, res = E.call(lambda: U.tt_dimscheck(N, M, **kw), "tt_dimscheck on a valid selection")
    if not ok:
        return
    sdims, vidx = res
    E.true([int(x) for x in sdims] == sel, "sdims is the sorted selection / complement", f"{list(sdims)} vs {sel}")
    if M is None:
        E.true(vidx is None, "no multiplicand index without M")
    elif M == N and P != N:
        E.true([int(x) for x in vidx] == sel, "M == N: multiplicands indexed by mode")
    elif not excl:
        E.true(all(d[int(vidx[i])] == sel[i] for i in range(P)), "M == |dims|: dims[vidx[i]] == sdims[i]")
    else:
        E.true([int(x) for x in vidx] == list(range(P)), "M == P with exclude_dims: multiplicands in order")


@ob("C17", params=[dict(rows=(2,), R=2), dict(rows=(2, 3), R=2), dict(rows=(2, 3, 2), R=1), dict(rows=(3, 2, 2), R=2, _tier="thorough")],
    bounds="1-3 symbolic matrices with a common column count, reverse on/off")
def khatrirao(E, rows, R):
    """khatrirao is the column-wise Kronecker product in the stated (or reversed) order"""
    Ms = [E.reals(f"M{k}_", (r, R)) for k, r in enumerate(rows)]
    E.eq(ttb.khatrirao(*Ms), O.ref_khatrirao(Ms), "khatrirao(*Ms)")
    E.eq(ttb.khatrirao(*Ms, reverse=True), O.ref_khatrirao(Ms[::-1]), "khatrirao(reverse=True)")


@ob("C17", params=[dict(N=N) for N in (2, 3, 4)], bounds="every mode n for fc/bc/t; every subset split for rdims-only / cdims-only")
def wrap_dims(E, N):
    """gather_wrap_dims implements the forward-cyclic, backward-cyclic and transposed conventions"""
    for n in range(N):
        r, c = U.gather_wrap_dims(N, np.array([n]), cdims_cyclic="fc")
        E.true(list(r) == [n] and list(c) == [(n + 1 + i) % N for i in range(N - 1)], f"fc n={n}", f"{list(c)}")
        r, c = U.gather_wrap_dims(N, np.array([n]), cdims_cyclic="bc")
        E.true(list(r) == [n] and list(c) == [(n - 1 - i) % N for i in range(N - 1)], f"bc n={n}", f"{list(c)}")
        r, c = U.gather_wrap_dims(N, np.array([n]), cdims_cyclic="t")
        E.true(list(c) == [n] and list(r) == [m for m in range(N) if m != n], f"t n={n}")
        r, c = U.gather_wrap_dims(N, cdims=np.array([n]))
        E.true(list(c) == [n] and list(r) == [m for m in range(N) if m != n], f"cdims only n={n}")
        r, c = U.gather_wrap_dims(N, rdims=np.array([n]))
        E.true(list(r) == [n] and list(c) == [m for m in range(N) if m != n], f"rdims only n={n}")
