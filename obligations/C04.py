"""C04 -- entry reads and writes behave like an F-ordered growable array (one inductive step from an
arbitrary state + short sequences); a dense and a sparse tensor driven by the same key stay equal."""
import itertools

import numpy as np
import pyttb as ttb
from symx.runner import ob
from symx import oracles as O


def _state(E, shape, sparse_direct=None):
    """arbitrary pre-state: dense tensor with symbolic entries + its sparse twin (every pattern by forks)"""
    X = O.dense(E, "x", shape)
    ref = O.cells(X.data)
    S = X.to_sptensor()
    return X, S, O.ArrayModel(ref)


def _post(E, X, S, M, label, filtered=True):
    if X is not None:
        E.true(X.shape == M.shape, f"{label}: dense shape after write", f"{X.shape} vs {M.shape}")
        if X.shape == M.shape:
            E.eq(X.data, M.a, f"{label}: dense state after write")
    if S is not None:
        E.true(S.shape == M.shape, f"{label}: sparse shape after write", f"{S.shape} vs {M.shape}")
        O.wellformed(E, S, f"{label}: sparse state", filtered=filtered)
        if S.shape == M.shape:
            E.eq(O.den(S), M.a, f"{label}: sparse state after write")


def _vals(x):
    if isinstance(x, (ttb.tensor, ttb.sptensor)):
        return O.den(x).reshape(-1, order="F")
    return np.asarray(x, dtype=object).reshape(-1)


SHAPES = [dict(shape=(2, 2)), dict(shape=(3,), _tier="thorough"), dict(shape=(2, 3), _tier="thorough"), dict(shape=(2, 1, 2), _tier="thorough")]


@ob("C04", params=SHAPES, max_paths=60000, wall_s=1500,
    bounds="pre-state: every tensor of the shape (symbolic entries, all patterns); key: full subscripts, each entry a solver-enumerated integer in [-n, n] (negative, in range, growth by one); rhs symbolic scalar (zero by fork)")
def write_full_subscript(E, shape):
    """X[i,j,..] = v on a dense and a sparse tensor: the model's cell changes, nothing else, growth pads zeros; read back"""
    X, S, M = _state(E, shape)
    sub = tuple(int(E.int(f"k{d}", -n, n)) for d, n in enumerate(shape))
    v = E.real("v")
    key = sub if len(sub) > 1 else sub[0]
    M.set(sub, v)
    okd, _ = E.call(lambda: X.__setitem__(key, v), "dense write")
    oks, _ = E.call(lambda: S.__setitem__(key, v), "sparse write")
    _post(E, X if okd else None, S if oks else None, M, "full subscript")
    rsub = M.norm_sub(sub)
    if okd and X.shape == M.shape:
        E.eq(X[rsub if len(rsub) > 1 else rsub[0]], v, "dense read-back")
    if oks and S.shape == M.shape:
        E.eq(S[rsub if len(rsub) > 1 else rsub[0]], v, "sparse read-back")


@ob("C04", params=[dict(shape=(2, 2), p=1), dict(shape=(2, 2), p=2), dict(shape=(3,), p=2, _tier="thorough"), dict(shape=(2, 3), p=2, _tier="thorough")],
    max_paths=80000, wall_s=1500,
    bounds="key: p x N array of solver-enumerated subscripts in [0, n] (growth by one; distinct rows); rhs: symbolic vector (mixing zero and non-zero by forks) or symbolic scalar")
def write_subscript_array(E, shape, p):
    """X[subs] = vals / scalar with a p x N subscript array"""
    X, S, M = _state(E, shape)
    N = len(shape)
    rows = [[int(E.int(f"k{r}_{d}", 0, n)) for d, n in enumerate(shape)] for r in range(p)]
    E.assume(len({tuple(r) for r in rows}) == p)
    subs = np.array(rows, dtype=int).reshape(p, N)
    scalar = E.cases("rhs_scalar", 2) == 1
    if scalar:
        v = E.real("v")
        vals_d = vals_s = v
        vs = [v] * p
    else:
        vs = [E.real(f"v{r}") for r in range(p)]
        arr = E.reals("v", (p,)) if False else None
        vals_d = _mkvec(E, vs, (p,))
        vals_s = _mkvec(E, vs, (p, 1))
    for r in range(p):
        M.grow([max(rw[d] for rw in rows) + 1 for d in range(N)])
    for r in range(p):
        M.set(rows[r], vs[r])
    okd, _ = E.call(lambda: X.__setitem__(subs, vals_d), "dense write")
    oks, _ = E.call(lambda: S.__setitem__(subs, vals_s), "sparse write")
    _post(E, X if okd else None, S if oks else None, M, "subscript array")
    if okd and X.shape == M.shape:
        E.eq(_vals(X[subs]), vs, "dense read-back")
    if oks and S.shape == M.shape:
        E.eq(_vals(S[subs]), vs, "sparse read-back")


def _mkvec(E, vs, shape):
    from symx import npenv
    if E.sym:
        return npenv.obj_array(vs, shape)
    return np.array(vs, dtype=float).reshape(shape)


@ob("C04", params=[dict(shape=(2, 2)), dict(shape=(3,), _tier="thorough"), dict(shape=(2, 3), _tier="thorough")], max_paths=40000,
    bounds="dense only (sparse linear assignment is documented as unsupported): key int in [-size, size-1], slices, list, array of solver-enumerated indices; rhs symbolic")
def write_linear_dense(E, shape):
    """X[k] = v by linear index (first index fastest), negative index, slice, list"""
    X, _, M = _state(E, shape)
    size = int(np.prod(shape))
    form = E.cases("form", 4)
    v = E.real("v")
    if form == 0:
        k = int(E.int("k", -size, size - 1))
        key, idxs = k, [k]
    elif form == 1:
        a = int(E.int("a", 0, size - 1))
        b = int(E.int("b", 0, size))
        key, idxs = slice(a, b), list(range(size))[a:b]
    elif form == 2:
        k1, k2 = int(E.int("k1", 0, size - 1)), int(E.int("k2", 0, size - 1))
        E.assume(k1 != k2)
        key, idxs = [k1, k2], [k1, k2]
    else:
        k1, k2 = int(E.int("k1", 0, size - 1)), int(E.int("k2", 0, size - 1))
        E.assume(k1 != k2)
        key, idxs = np.array([k1, k2]), [k1, k2]
    for k in idxs:
        M.set(M.lin(k), v)
    ok, _ = E.call(lambda: X.__setitem__(key, v), f"dense linear write form {form}")
    if ok:
        _post(E, X, None, M, "linear")
        if idxs:
            E.eq(_vals(X[key]), [v] * len(idxs), "read-back by the same key")


def _regions(shape):
    """catalogue of region keys for a 2-way shape (ints, slices with/without bounds, lists; growth)"""
    n0, n1 = shape
    return [
        (0, slice(None)), (slice(None), n1 - 1), (slice(0, 1), slice(None)), (slice(None), slice(None)),
        ([0, n0 - 1], 0) if n0 > 1 else ([0], 0), (slice(0, n0), [n1 - 1]), (-1, slice(None)),
        (slice(0, n0 + 1), 0), (n0, slice(None)), (slice(None), slice(1, n1 + 1)),
        # not ascending: index lists in descending order, negative-step slices (reads only; no growth)
        ([n0 - 1, 0], slice(None)), (slice(None), [n1 - 1, 0]), (slice(None, None, -1), 0), (slice(None), slice(None, None, -1)),
        ([n0 - 1, 0], [n1 - 1, 0]) if False else ([n0 - 1, 0], n1 - 1),
    ]


NREAD = 7  # catalogue entries usable by both reads and writes (no growth: first 7); entries 10.. are read-only orders
READ_KEYS = list(range(7)) + [10, 11, 12, 13, 14]


@ob("C04", params=[dict(shape=(2, 2), r=r) for r in range(10)] + [dict(shape=(2, 3), r=r, _tier="thorough") for r in range(10)], max_paths=40000,
    bounds="2-way pre-state; region keys from a catalogue (int, negative int, slice with/without bounds, index list, growth by slice/int); rhs symbolic scalar or zero")
def write_region_scalar(E, shape, r):
    """X[region] = scalar fills exactly the region (growing if needed); dense and sparse agree"""
    X, S, M = _state(E, shape)
    key = _regions(shape)[r]
    v = E.real("v")
    lists, keep = M.region_subs(key)
    M.grow([max(l) + 1 if l else 1 for l in lists])
    for sub in itertools.product(*lists):
        M.set(sub, v)
    okd, _ = E.call(lambda: X.__setitem__(key, v), "dense region write")
    oks, _ = E.call(lambda: S.__setitem__(key, v), "sparse region write")
    _post(E, X if okd else None, S if oks else None, M, "region scalar")


@ob("C04", params=[dict(shape=(2, 2), r=r) for r in READ_KEYS] + [dict(shape=(2, 3), r=r, _tier=("quick" if r >= 10 else "thorough")) for r in READ_KEYS], max_paths=40000,
    bounds="2-way state (all patterns); region keys from the catalogue (no growth; incl. descending index lists and negative-step slices); reads on dense and sparse")
def read_region(E, shape, r):
    """X[region] returns the sub-array of the region (kept modes = slices and lists), dense and sparse alike"""
    X, S, M = _state(E, shape)
    key = _regions(shape)[r]
    lists, keep = M.region_subs(key)
    # F order: first mode fastest
    want = [M.get(tuple(reversed(sub))) for sub in itertools.product(*reversed(lists))]
    kshape = tuple(len(l) for l, k in zip(lists, keep) if k)
    okd, gd = E.call(lambda: X[key], "dense region read")
    if okd:
        E.eq(_vals(gd), want, "dense region read")
        if isinstance(gd, ttb.tensor):
            E.true(gd.shape == kshape, "dense region read shape", f"{gd.shape} vs {kshape}")
    oks, gs = E.call(lambda: S[key], "sparse region read")
    if oks:
        if isinstance(gs, ttb.sptensor):
            O.wellformed(E, gs, "sparse region read")
            E.true(gs.shape == kshape, "sparse region read shape", f"{gs.shape} vs {kshape}")
        E.eq(_vals(gs), want, "sparse region read")


@ob("C04", params=[dict(shape=(2, 2)), dict(shape=(3,), _tier="thorough"), dict(shape=(2, 3), _tier="thorough")], max_paths=40000,
    bounds="reads by linear index: int in [-size, size-1], slice, list, array; full subscripts with negative entries; subscript arrays")
def read_linear_and_subscripts(E, shape):
    """X[k], X[a:b], X[[k1,k2]], X[subs] return the addressed entries, first index fastest, dense and sparse alike"""
    X, S, M = _state(E, shape)
    size = int(np.prod(shape))
    form = E.cases("form", 5)
    if form == 0:
        k = int(E.int("k", -size, size - 1))
        key, want = k, [M.get(M.lin(k))]
    elif form == 1:
        a, b = int(E.int("a", 0, size - 1)), int(E.int("b", 0, size))
        key, want = slice(a, b), [M.get(M.lin(k)) for k in list(range(size))[a:b]]
    elif form == 2:
        k1, k2 = int(E.int("k1", 0, size - 1)), int(E.int("k2", 0, size - 1))
        key, want = [k1, k2], [M.get(M.lin(k1)), M.get(M.lin(k2))]
    elif form == 3:
        k1, k2 = int(E.int("k1", -size, size - 1)), int(E.int("k2", 0, size - 1))
        key, want = np.array([k1, k2]), [M.get(M.lin(k1)), M.get(M.lin(k2))]
    else:
        rows = [[int(E.int(f"s{r}_{d}", 0, n - 1)) for d, n in enumerate(shape)] for r in range(2)]
        key, want = np.array(rows), [M.get(r) for r in rows]
    if want:
        okd, gd = E.call(lambda: X[key], f"dense read form {form}")
        if okd:
            E.eq(_vals(gd), want, f"dense read form {form}")
        oks, gs = E.call(lambda: S[key], f"sparse read form {form}")
        if oks:
            E.eq(_vals(gs), want, f"sparse read form {form}")
    E.eq(X.data, M.a, "dense state unchanged by reads")
    E.eq(O.den(S), M.a, "sparse state unchanged by reads")


@ob("C04", params=[dict(start="empty"), dict(start="one")], max_paths=60000, wall_s=1500,
    bounds="sequences of 2 writes by full subscripts (entries enumerated in [0,2], symbolic values, zero by fork) from an empty 2-way tensor and from a 1-entry tensor; every intermediate state compared")
def write_sequences(E, start):
    """growth-then-overwrite histories: dense and sparse stay equal to the array model after each step"""
    if start == "empty":
        X = ttb.tensor(E.const(np.zeros((1, 1))))
        S = ttb.sptensor(shape=(1, 1))
        M = O.ArrayModel(O.zeros((1, 1)))
    else:
        x0 = E.real("x0", nonzero=True)
        X = ttb.tensor(_mkvec(E, [x0], (1, 1)), copy=False)
        S = ttb.sptensor(np.array([[0, 0]]), _mkvec(E, [x0], (1, 1)), (1, 1))
        M = O.ArrayModel(O.cells(_mkvec(E, [x0], (1, 1))))
    for step in range(2):
        sub = (int(E.int(f"i{step}", 0, 2)), int(E.int(f"j{step}", 0, 1)))
        v = E.real(f"v{step}")
        M.set(sub, v)
        okd, _ = E.call(lambda: X.__setitem__(sub, v), f"dense write {step}")
        oks, _ = E.call(lambda: S.__setitem__(sub, v), f"sparse write {step}")
        if not (okd and oks):
            return
        _post(E, X, S, M, f"step {step}")


@ob("C04", params=[dict(form=f, i0=i0) for f in ("lin_int", "lin_slice", "lin_list") for i0 in (0, 1, 2)] + [dict(form=f, i0=None) for f in ("region", "subs")], max_paths=60000, wall_s=1500,
    bounds="history: 2x2 symbolic state, step 1 grows it by a full-subscript write (entries enumerated in [0,2]), step 2 overwrites through another key form (linear int / linear slice / linear list: dense only; region, subscript array: dense and sparse), symbolic values")
def write_after_growth(E, form, i0):
    """growth-then-overwrite through a different key form: the second write lands in the grown tensor"""
    X, S, M = _state(E, (2, 2))
    # (the first subscript entry is split over obligations for the linear forms: wall time only)
    sub = (i0 if i0 is not None else int(E.int("i", 0, 2)), int(E.int("j", 0, 2)))
    v = E.real("v")
    M.set(sub, v)
    X[sub] = v
    S[sub] = v
    _post(E, X, S, M, "growth step")
    size = int(np.prod(M.shape))
    w = E.real("w")
    if form == "lin_int":
        k = int(E.int("k", -size, size - 1))
        M.set(M.lin(k), w)
        X[k] = w
        _post(E, X, None, M, "linear int after growth")
    elif form == "lin_slice":
        a, b = int(E.int("a", 0, size - 1)), int(E.int("b", 0, size))
        for k in list(range(size))[a:b]:
            M.set(M.lin(k), w)
        X[a:b] = w
        _post(E, X, None, M, "linear slice after growth")
    elif form == "lin_list":
        k1, k2 = int(E.int("k1", 0, size - 1)), int(E.int("k2", 0, size - 1))
        E.assume(k1 != k2)
        for k in (k1, k2):
            M.set(M.lin(k), w)
        X[[k1, k2]] = w
        _post(E, X, None, M, "linear list after growth")
    elif form == "region":
        key = (slice(None), M.shape[1] - 1)
        for i in range(M.shape[0]):
            M.set((i, M.shape[1] - 1), w)
        X[key] = w
        S[key] = w
        _post(E, X, S, M, "region after growth")
    else:
        rows = [[M.shape[0] - 1, 0], [0, M.shape[1] - 1]]
        for r in rows:
            M.set(r, w)
        subs = np.array(rows)
        X[subs] = w
        S[subs] = w
        _post(E, X, S, M, "subscript array after growth")
