"""C08 -- Kruskal re-parameterisations preserve the tensor and reach their normal form."""
import itertools

import numpy as np
import pyttb as ttb
from symx.runner import ob
from symx import oracles as O


def _colnorm(E, col, normtype):
    s = 0.0
    for v in col:
        s = s + (v * v if normtype == 2 else abs(v))
    return s


def _is_zero_col(col):
    return all(not (v != 0) for v in col)


def _unit_cols(E, K, modes, normtype, label):
    for n in modes:
        U = K.factor_matrices[n]
        for r in range(K.ncomponents):
            col = [U[i, r] for i in range(U.shape[0])]
            if _is_zero_col(col):
                continue
            E.eq(_colnorm(E, col, normtype), 1.0, f"{label}: unit {normtype}-norm columns")


SHAPES_R = [dict(shape=(2, 2), R=2), dict(shape=(2, 2, 2), R=1), dict(shape=(3, 2), R=1), dict(shape=(2, 3, 2), R=2, _tier="thorough")]


def _norm_params():
    out = []
    for sr in SHAPES_R:
        N = len(sr["shape"])
        for wf in [None, "all"] + list(range(N)):
            for sort in (False, True):
                out.append(dict(sr, wf=wf, sort=sort, normtype=2))
    # (1-norm with R = 2: the sign forks of 8 entries exhaust a 900 s budget -- not registered)
    out += [dict(shape=(2, 2), R=1, wf=None, sort=False, normtype=1), dict(shape=(2, 2), R=1, wf=1, sort=True, normtype=1)]
    return out


@ob("C08", params=_norm_params(), max_paths=30000,
    bounds="weights of any sign / zero and zero columns by forks; 2-norm (1-norm on rank 1); every absorbing mode incl. 'all'; sort on/off")
def normalize(E, shape, R, wf, sort, normtype):
    """normalize keeps the array and reaches the normal form (unit columns, weights >= 0 / all one, sorted if asked)"""
    K = O.kruskal(E, "k", shape, R)
    before = O.den(K)
    N = len(shape)
    ret = K.normalize(weight_factor=wf, sort=sort, normtype=normtype)
    E.true(ret is K, "normalize works in place and returns the receiver")
    E.eq(O.den(K), before, "array unchanged by normalize")
    w = [K.weights[r] for r in range(R)]
    for r in range(R):
        E.true(w[r] >= 0, "weights non-negative")
    if wf is None:
        _unit_cols(E, K, range(N), normtype, "normalize")
        if sort:
            for r in range(R - 1):
                E.true(w[r] >= w[r + 1], "weights in decreasing order")
    else:
        for r in range(R):
            E.eq(w[r], 1.0, "weights absorbed: all one")
        if wf != "all":
            _unit_cols(E, K, [n for n in range(N) if n != wf], normtype, "normalize(weight_factor)")


@ob("C08", params=[dict(shape=(2, 2), R=2, mode=m, normtype=t) for m in (0, 1) for t in (2, 1)]
    + [dict(shape=(2, 3, 2), R=1, mode=m, normtype=t) for m, t in ((1, 2), (1, 1), (0, 1), (2, 1))], max_paths=20000,
    bounds="normalize(mode=k, normtype in {2, 1}): only that mode's columns are normalised, their norms multiplied into the weights; "
           "entries of any sign (columns with negative / mixed-sign / zero entries by forks)")
def normalize_mode(E, shape, R, mode, normtype):
    """normalize(mode=k) keeps the array; columns of mode k get unit norm"""
    K = O.kruskal(E, "k", shape, R)
    before = O.den(K)
    others = [O.cells(K.factor_matrices[n]) for n in range(len(shape))]
    if normtype == 2:
        K.normalize(mode=mode)
    else:
        K.normalize(mode=mode, normtype=normtype)
    E.eq(O.den(K), before, "array unchanged")
    _unit_cols(E, K, [mode], normtype, "normalize(mode)")
    for n in range(len(shape)):
        if n != mode:
            E.eq(K.factor_matrices[n], others[n], "other factor matrices untouched")


@ob("C08", params=SHAPES_R, max_paths=30000, bounds="arrange(): normalise + sort; arrange(weight_factor=k) for every k; arrange(permutation=p) for every p of the components")
def arrange(E, shape, R):
    """arrange keeps the array; sorted non-negative weights / absorbed weights / permuted components"""
    N = len(shape)
    K = O.kruskal(E, "k", shape, R)
    before = O.den(K)
    K1 = K.copy()
    K1.arrange()
    E.eq(O.den(K1), before, "arrange(): array unchanged")
    for r in range(R):
        E.true(K1.weights[r] >= 0, "arrange(): weights non-negative")
    for r in range(R - 1):
        E.true(K1.weights[r] >= K1.weights[r + 1], "arrange(): weights decreasing")
    _unit_cols(E, K1, range(N), 2, "arrange()")
    for k in range(N):
        K2 = K.copy()
        K2.arrange(weight_factor=k)
        E.eq(O.den(K2), before, f"arrange(weight_factor={k}): array unchanged")
        for r in range(R):
            E.eq(K2.weights[r], 1.0, "arrange(weight_factor): weights all one")
    for p in itertools.permutations(range(R)):
        K3 = K.copy()
        K3.arrange(permutation=list(p))
        E.eq(O.den(K3), before, f"arrange(permutation={p}): array unchanged")
        for j, r in enumerate(p):
            E.eq(K3.weights[j], K.weights[r], "permuted weights")
            for n in range(N):
                E.eq(K3.factor_matrices[n][:, j], K.factor_matrices[n][:, r], "permuted columns")
    E.eq(O.den(K), before, "copies are independent of the original")


@ob("C08", params=[dict(shape=(2, 2), R=1), dict(shape=(2, 2, 2), R=1), dict(shape=(2, 2), R=2, _tier="thorough"), dict(shape=(2, 3, 2), R=1, _tier="thorough")],
    max_paths=60000, wall_s=1500,
    bounds="fixsigns() alone: all sign patterns / ties of the largest-magnitude entries by forks")
def fixsigns_alone(E, shape, R):
    """fixsigns() flips an even number of modes per component: the array is unchanged"""
    K = O.kruskal(E, "k", shape, R)
    before = O.den(K)
    absf = [[[abs(K.factor_matrices[n][i, r]) for i in range(shape[n])] for r in range(R)] for n in range(len(shape))]
    K.fixsigns()
    E.eq(O.den(K), before, "array unchanged by fixsigns()")
    for n in range(len(shape)):
        for r in range(R):
            for i in range(shape[n]):
                E.eq(abs(K.factor_matrices[n][i, r]), absf[n][r][i], "only signs change")


REFS = {  # columns with integer 2-norms, so that normalising the reference stays rational
    "pp": [[3.0, 4.0], [4.0, 3.0], [5.0, 12.0]],
    "np": [[-3.0, 4.0], [4.0, -3.0], [-5.0, 12.0]],
    "nn": [[-3.0, -4.0], [-4.0, -3.0], [-5.0, -12.0]],
    "zp": [[0.0, 2.0], [3.0, 0.0], [0.0, 1.0]],
}


@ob("C08", params=[dict(shape=(2, 2), R=1, ref=r) for r in REFS] + [dict(shape=(2, 2, 2), R=1, ref=r, _tier="thorough") for r in REFS], gating=True,
    max_paths=60000, wall_s=900,
    bounds="fixsigns(other): receiver symbolic (rank 1), reference tensor concrete from a catalogue of 4 sign patterns (a symbolic reference makes the sign conditions bilinear: z3 unknown)")
def fixsigns_reference(E, shape, R, ref):
    """fixsigns(other) changes only signs (pairwise), keeps the array, and leaves the reference as it was"""
    K = O.kruskal(E, "k", shape, R)
    N = len(shape)
    B = ttb.ktensor([E.const(np.array(REFS[ref][n]).reshape(shape[n], 1)) for n in range(N)], E.const(np.array([2.0])))
    before, bbefore = O.den(K), O.den(B)
    absf = [[abs(K.factor_matrices[n][i, 0]) for i in range(shape[n])] for n in range(N)]
    bw = O.cells(B.weights)
    bf = [O.cells(f) for f in B.factor_matrices]
    K.fixsigns(B)
    E.eq(O.den(K), before, "array unchanged by fixsigns(other)")
    E.eq(O.den(B), bbefore, "reference array unchanged")
    E.eq(B.weights, bw, "reference weights untouched")
    for n in range(N):
        E.eq(B.factor_matrices[n], bf[n], "reference factors untouched")


# (2x3x2 with R = 2: the tolist(mode) goal hits the solver's resource limit in some runs -- not registered here)
@ob("C08", params=[p for p in SHAPES_R if p["shape"] != (2, 3, 2)], bounds="redistribute(mode) for every mode; extract every non-empty ordered subset of components; tovec/from_vector, tolist, update round trips; + - neg scalar")
def redistribute_extract_roundtrips(E, shape, R):
    """redistribute / extract / vector and list round trips / algebra give the documented arrays"""
    N = len(shape)
    K = O.kruskal(E, "k", shape, R)
    before = O.den(K)
    for m in range(N):
        K1 = K.copy()
        K1.redistribute(m)
        E.eq(O.den(K1), before, f"redistribute({m}): array unchanged")
        for r in range(R):
            E.eq(K1.weights[r], 1.0, "redistribute: weights all one")
    for k in range(1, R + 1):
        for comp in itertools.permutations(range(R), k):
            Ex = K.extract(list(comp))
            want = O.den_kruskal([K.weights[r] for r in comp], [O.cells(f)[:, list(comp)] for f in K.factor_matrices])
            E.eq(O.den(Ex), want, f"extract{comp}")
    E.eq(O.den(K.extract(0)), O.den_kruskal([K.weights[0]], [O.cells(f)[:, [0]] for f in K.factor_matrices]), "extract(int)")
    for inc in (True, False):
        v = K.tovec(include_weights=inc)
        K2 = ttb.ktensor.from_vector(v, shape, inc)
        for n in range(N):
            E.eq(K2.factor_matrices[n], K.factor_matrices[n], f"from_vector(tovec) factors (weights={inc})")
        E.eq(K2.weights, K.weights if inc else [1.0] * R, f"from_vector(tovec) weights (weights={inc})")
    L = K.tolist()
    E.true(len(L) == N, "tolist length")
    E.eq(O.den_kruskal([1.0] * R, L), before, "tolist(): weights spread over the factors keep the array")
    for m in range(N):
        Lm = K.copy().tolist(m)
        E.eq(O.den_kruskal([1.0] * R, Lm), before, f"tolist({m})")
    # update: overwrite one factor / the weights from a vector
    newf = E.reals("nf", (shape[0], R))
    K3 = K.copy()
    K3.update(0, O.cells(newf).reshape(-1, order="F") if not E.sym else newf.reshape(-1, order="F"))
    E.eq(K3.factor_matrices[0], newf, "update(0, data) replaces factor 0")
    for n in range(1, N):
        E.eq(K3.factor_matrices[n], K.factor_matrices[n], "update leaves the other factors")
    # algebra
    B = O.kruskal(E, "b", shape, 1)
    bd = O.den(B)
    E.eq(O.den(K + B), before + bd, "K + B")
    E.eq(O.den(K - B), before - bd, "K - B")
    E.eq(O.den(-K), -before, "-K")
    E.eq(O.den(+K), before, "+K")
    s = E.real("s")
    E.eq(O.den(K * s), before * s, "K * s")
    E.eq(O.den(s * K), before * s, "s * K")
    E.eq(O.den(K), before, "operands unchanged")
    C = K.copy()
    E.eq(O.den(C), before, "copy")


@ob("C08", params=[dict(signs=sg) for sg in ("+++", "-++", "+-+", "--+", "-+-", "---")], max_paths=20000, wall_s=600,
    bounds="3-way rank-1 receiver whose factor columns are sign * (positive symbols) for every enumerated sign pattern of the modes (incl. all modes anti-aligned), reference with positive columns of integer norm")
def fixsigns_reference_3way(E, signs):
    """odd order: fixsigns(other) still flips modes in pairs, whatever number of modes is anti-aligned"""
    shape = (2, 2, 2)
    fs = []
    for n in range(3):
        col = E.reals(f"kU{n}_", (2, 1), positive=True)
        fs.append(col * (1.0 if signs[n] == "+" else -1.0))
    K = ttb.ktensor(fs, E.reals("kw", (1,), positive=True), copy=False)
    B = ttb.ktensor([E.const(np.array(REFS["pp"][n]).reshape(2, 1)) for n in range(3)], E.const(np.array([2.0])))
    before = O.den(K)
    K.fixsigns(B)
    E.eq(O.den(K), before, "array unchanged by fixsigns(other) on a 3-way tensor")
