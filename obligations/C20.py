"""C20 -- generators and aggregating constructors build what they advertise."""
import itertools

import numpy as np
import pyttb as ttb
from symx.runner import ob
from symx import oracles as O
from symx import harness as H
from symx.core import Cut


@ob("C20", params=[dict(shape=(3,)), dict(shape=(2, 3)), dict(shape=(2, 1, 2)), dict(shape=(1, 1)), dict(shape=(2, 3, 2), _tier="thorough")],
    bounds="ones / zeros / from_function with a function returning symbolic values (as an array of the shape and as a flat vector)")
def dense_generators(E, shape):
    """tenones / tenzeros / tensor.from_function: exact shape; entries all one / all zero / the function's output first index fastest"""
    n = int(np.prod(shape))
    T1 = ttb.tenones(shape)
    E.true(T1.shape == tuple(shape), "tenones shape")
    E.eq(T1.data, np.ones(shape), "tenones entries")
    T0 = ttb.tenzeros(shape)
    E.true(T0.shape == tuple(shape), "tenzeros shape")
    E.eq(T0.data, np.zeros(shape), "tenzeros entries")
    vals = E.reals("f", (n,))
    flat = ttb.tensor.from_function(lambda s: vals.copy(), shape)
    E.true(flat.shape == tuple(shape), "from_function shape")
    E.eq(flat.data, O.ref_reshape(O.cells(vals), shape), "from_function(flat vector): first index fastest")
    arr = O.ref_reshape(O.cells(vals), shape)
    T = ttb.tensor.from_function(lambda s: _like(E, arr), shape)
    E.eq(T.data, arr, "from_function(array of the shape)")


def _like(E, cells):
    from symx import npenv
    if E.sym:
        return npenv.wrap(cells.copy())
    return np.array(cells.tolist(), dtype=float)


@ob("C20", params=[dict(shape=(2, 3)), dict(shape=(3,)), dict(shape=(2, 2, 2), _tier="thorough")],
    bounds="tenrand with the RNG stub: every entry is one uniform draw in [0,1); same draws => same tensor")
def tenrand(E, shape):
    """tenrand: requested shape, entries are the uniform draws (in [0,1)), nothing else consumed from the stream"""
    with H.rng(E) as R:
        T = ttb.tenrand(shape)
    E.true(T.shape == tuple(shape), "tenrand shape")
    n = int(np.prod(shape))
    E.true(len(R.draws) == n, "one draw per entry", f"{len(R.draws)} draws")
    E.true(R.seeds == [], "the generator does not reseed the global stream")
    cells = T.data.ravel(order="F").tolist()
    for c in cells:
        E.true((c >= 0) & (c < 1), "entries in [0,1)")
    E.true(sorted(map(_key, cells)) == sorted(map(_key, R.draws)), "entries are exactly the drawn values")


def _key(x):
    from symx import core
    return core.sym_value(x) if core.is_sym(x) else x


def _diag_params():
    import itertools
    out = [dict(n=1, shape=None), dict(n=2, shape=None), dict(n=3, shape=None), dict(n=2, shape=(2, 3)), dict(n=2, shape=(1, 1)),
           dict(n=2, shape=(3, 2, 4)), dict(n=3, shape=(2, 2)), dict(n=2, shape=(2, 3, 2)), dict(n=3, shape=(4, 3, 5))]
    seen = {(d["n"], d["shape"]) for d in out}
    # every mix of modes that are too small / exact / larger than the number of elements (each mode is enlarged on its own)
    for n, k in ((2, 2), (3, 2), (2, 3), (3, 3)):
        for shape in itertools.product((n - 1, n, n + 2), repeat=k):
            if (n, shape) not in seen:
                seen.add((n, shape))
                out.append(dict(n=n, shape=shape))
    return out


@ob("C20", params=_diag_params(),
    bounds="tendiag / sptendiag: symbolic elements; default shape; every 2-way and 3-way shape whose modes are, independently, smaller than / equal to / larger than the number of elements (n = 2, 3)")
def diagonal(E, n, shape):
    """tendiag / sptendiag: the given values on the super-diagonal, zero elsewhere, shape enlarged to fit"""
    el = E.reals("d", (n,))
    want_shape = (n,) * n if shape is None else tuple(max(n, s) for s in shape)
    ref = O.zeros(want_shape)
    for i in range(n):
        ref[(i,) * len(want_shape)] = el[i]
    T = ttb.tendiag(el) if shape is None else ttb.tendiag(el, shape)
    E.true(T.shape == want_shape, "tendiag shape", f"{T.shape} vs {want_shape}")
    if T.shape == want_shape:
        E.eq(T.data, ref, "tendiag entries")
    S = ttb.sptendiag(el) if shape is None else ttb.sptendiag(el, shape)
    E.true(S.shape == want_shape, "sptendiag shape", f"{S.shape} vs {want_shape}")
    O.wellformed(E, S, "sptendiag")
    if S.shape == want_shape:
        E.eq(O.den(S), ref, "sptendiag entries")


@ob("C20", params=[dict(ndims=2, size=2), dict(ndims=2, size=3), dict(ndims=4, size=2), dict(ndims=4, size=3, _tier="thorough")],
    bounds="teneye(ndims, size) for even ndims; x symbolic with sum(x^2) == 1 assumed")
def identity(E, ndims, size):
    """teneye acts as the identity under symmetric multiplication by a unit vector: T.ttsv(x, 0) == x"""
    T = ttb.teneye(ndims, size)
    E.true(T.shape == (size,) * ndims, "teneye shape")
    x = E.reals("x", (size,))
    s = 0.0
    for v in x.tolist():
        s = s + v * v
    E.assume_eq(s, 1)
    got = T.ttsv(x, 0)
    E.eq(got, x, "teneye.ttsv(x, 0) == x for unit x")
    E.true(bool(T.issymmetric()), "teneye is symmetric")


def _agg_params():
    out = []
    base = [((0, 1), (1, 2), (0, 1)), ((1, 1), (1, 1), (1, 1)), ((0, 0), (1, 2), (0, 2), (1, 2)), ((1, 2), (0, 1), (1, 2), (0, 1))]
    for rows in base:
        for red in ("sum", "max", "min"):
            out.append(dict(rows=rows, red=red, _tier="quick" if len(rows) == 3 or red == "sum" else "thorough"))
    return out


@ob("C20", params=_agg_params(), max_paths=40000,
    bounds="from_aggregator: subscript lists with arbitrary multiplicities (3-4 rows, unsorted), symbolic values (cancellation / zero results by forks), reducers sum / max / min")
def aggregator(E, rows, red):
    """from_aggregator combines the values of equal subscripts with the reducer, drops zero results, keeps pairing under unsorted input"""
    shape = (2, 3)
    vals = E.reals("v", (len(rows), 1))
    subs = np.array(rows)
    fn = {"sum": np.sum, "max": np.max, "min": np.min}[red]
    S = ttb.sptensor.from_aggregator(subs, vals, shape, fn) if red != "sum" else ttb.sptensor.from_aggregator(subs, vals, shape)
    groups = {}
    for r, p in enumerate(rows):
        groups.setdefault(tuple(p), []).append(vals[r, 0])
    ref = O.zeros(shape)
    for p, vs in groups.items():
        if red == "sum":
            t = 0.0
            for v in vs:
                t = t + v
        elif red == "max":
            t = O.smax(vs)
        else:
            t = -O.smax([-v for v in vs])
        ref[p] = t
    O.wellformed(E, S, "from_aggregator")
    E.true(S.shape == shape, "shape")
    E.eq(O.den(S), ref, f"from_aggregator({red})")
    nz = O.count_nonzero_cells(ref)
    E.true(S.nnz == nz, "nnz == number of non-zero combined values")


@ob("C20", params=[dict(shape=(2, 2), nz=1), dict(shape=(2, 2), nz=2), dict(shape=(2, 3), nz=2, _tier="thorough"), dict(shape=(2, 2), nz=0.5)],
    max_paths=20000, wall_s=600,
    bounds="sptenrand / sptensor.from_function with the RNG stub: subscripts derive from symbolic uniform draws (solver enumerates the integer outcomes of every retry round)")
def sparse_random(E, shape, nz):
    """sptenrand: well-formed, requested shape, distinct subscripts, values are draws in [0,1), count as requested"""
    with H.rng(E) as R:
        S = ttb.sptenrand(shape, nonzeros=nz) if nz >= 1 else ttb.sptenrand(shape, density=nz)
    want = int(nz) if nz >= 1 else int(np.ceil(np.prod(shape) * nz))
    O.wellformed(E, S, "sptenrand", filtered=False)
    E.true(S.shape == tuple(shape), "shape")
    E.true(S.nnz == want, "requested number of distinct nonzeros", f"{S.nnz} vs {want}")
    for v in np.asarray(S.vals).ravel().tolist():
        E.true((v >= 0) & (v < 1), "values in [0,1)")
    E.true(R.seeds == [], "the generator does not reseed the global stream")


@ob("C20", params=[dict(shape=(2, 2), nz=3)], max_paths=400, wall_s=300,
    bounds="sptenrand((2,2), nonzeros=3) on the draw outcomes in which every retry round repeats the first round's draws and two of them fall into the same cell (the give-up branch of the retry loop)")
def sparse_random_collide(E, shape, nz):
    """the requested number of nonzeros is delivered on every draw outcome (here: the outcomes where all retry rounds collide)"""
    with H.rng(E) as R:
        stub_uniform = R.uniform
        rounds = []

        def uniform(low=0.0, high=1.0, size=None):
            a = stub_uniform(low, high, size)
            if isinstance(size, (list, tuple)) and len(size) == 2 and size[0] == nz:
                flat = np.asarray(a).reshape(-1).tolist()
                if rounds:
                    for x, y in zip(flat, rounds[0]):
                        E.assume(x == y)
                else:
                    # first two subscript rows fall into the same cell
                    for k in range(len(shape)):
                        E.assume((flat[k] < 0.5) & (flat[len(shape) + k] < 0.5))
                rounds.append(flat)
            return a

        R.uniform = uniform
        S = ttb.sptenrand(shape, nonzeros=nz)
    O.wellformed(E, S, "sptenrand", filtered=False)
    E.true(S.nnz == nz, "requested number of distinct nonzeros", f"{S.nnz} vs {nz}")


@ob("C20", params=[dict(shape=(2, 3), R=2), dict(shape=(3,), R=1)],
    bounds="ktensor.from_function with a function returning symbolic values")
def kruskal_from_function(E, shape, R):
    """ktensor.from_function: factor matrices of the requested shape / rank filled by the function, weights one"""
    mats = [E.reals(f"g{n}_", (s, R)) for n, s in enumerate(shape)]
    it = iter(mats)
    K = ttb.ktensor.from_function(lambda s: next(it).copy(), shape, R)
    E.true(K.shape == tuple(shape) and K.ncomponents == R, "shape / rank")
    for n in range(len(shape)):
        E.eq(K.factor_matrices[n], mats[n], "factor matrices are the function's output")
    E.eq(K.weights, [1.0] * R, "weights all one")
