"""C18 -- decomposition results do not depend on how the problem is presented (relations between two bounded runs)."""
import contextlib
import io
import itertools

import numpy as np
import pyttb as ttb
from symx.runner import ob
from symx import oracles as O
from symx import harness as H
from obligations.C09 import _run, _data


_RATIONAL_NORM = {(2, 2): [[2.0, 3.0], [6.0, 0.0]], (2, 3): [[1.0, 2.0, 2.0], [4.0, 0.0, 0.0]], (3, 2): [[1.0, 4.0], [2.0, 0.0], [2.0, 0.0]]}


def _vals(shape):
    """concrete asymmetric data; 2-way shapes have an integer Frobenius norm, so that ||X|| is exact"""
    if tuple(shape) in _RATIONAL_NORM:
        return np.array(_RATIONAL_NORM[tuple(shape)])
    return ((np.arange(int(np.prod(shape))) * 7 + 3) % 11 - 4.0).reshape(shape, order="F")


def _state(E, X, R, K0, dimorder=None, optdims=None, printitn=0, cut=True, fixsigns=True):
    st, rng, nv, sv = _run(E, X, R, dimorder, optdims, K0, printitn, fixsigns, cut=cut)
    return st, sv


def _same_model(E, Ma, Mb, label):
    E.eq(Ma.weights, O.cells(Mb.weights), f"{label}: weights equal")
    for n in range(Ma.ndims):
        E.eq(Ma.factor_matrices[n], O.cells(Mb.factor_matrices[n]), f"{label}: factor {n} equal")


# (3x2: the fit / residual goals contain nested roots: z3 unknown -- not registered)
@ob("C18", params=[dict(shape=(2, 3), R=1), dict(shape=(2, 2), R=1, _tier="thorough")], max_paths=6000, wall_s=600, validate=False, env_stub=True,
    bounds="CP-ALS, one sweep (cut before the final arrange), opaque linear solves: the run on a dense tensor and the run on the sparse tensor holding the same (concrete) array, same symbolic starting guess")
def cp_als_dense_vs_sparse(E, shape, R):
    """dense and sparse data: the same systems are handed to the linear solver and the same model / fit results"""
    Xd = ttb.tensor(E.const(_vals(shape)))
    Xs = Xd.to_sptensor()
    K0 = O.kruskal(E, "g", shape, R)
    sa, sva = _state(E, Xd, R, K0.copy())
    sb, svb = _state(E, Xs, R, K0.copy())
    if not ("locals" in sa and "locals" in sb):
        from symx.core import Unmodelled
        raise Unmodelled("cp_als internals changed: the final arrange was not reached from cp_als")
    E.true(len(sva.calls) == len(svb.calls), "same number of linear solves")
    for ca, cb in zip(sva.calls, svb.calls):
        E.eq(ca["A"], cb["A"], "same coefficient matrix handed to the solver")
        E.eq(ca["B"], cb["B"], "same right-hand side handed to the solver")
    La, Lb = sa["locals"], sb["locals"]
    _same_model(E, La["M"], Lb["M"], "dense vs sparse")
    E.eq(La["fit"], Lb["fit"], "same fit")
    E.eq(La["normresidual"], Lb["normresidual"], "same residual norm")


@ob("C18", params=[dict(shape=(2, 2), optdims=[0], _tier="thorough")], max_paths=20000, wall_s=900, validate=False, env_stub=True,
    bounds="CP-ALS complete one-sweep runs (rank 1) with printing off / on: returned model and output dictionary")
def cp_als_printing(E, shape, optdims):
    """printitn = 0 vs 1: the same model, fit, residual and iteration count"""
    X = ttb.tensor(E.const(_vals(shape)))
    K0 = O.kruskal(E, "g", shape, 1)
    dimorder = None if optdims != [1] else list(range(len(shape)))[::-1]
    sa, _ = _state(E, X, 1, K0.copy(), dimorder=dimorder, optdims=optdims, printitn=0, cut=False)
    sb, _ = _state(E, X, 1, K0.copy(), dimorder=dimorder, optdims=optdims, printitn=1, cut=False)
    (Ma, _, oa), (Mb, _, ob_) = sa["result"], sb["result"]
    _same_model(E, Ma, Mb, "printitn 0 vs 1")
    E.eq(oa["fit"], ob_["fit"], "same fit")
    E.eq(oa["normresidual"], ob_["normresidual"], "same residual norm")
    E.true(oa["iters"] == ob_["iters"], "same iteration count")


# (2x3 exhausts a 600 s budget -- not registered)
@ob("C18", params=[dict(shape=(2, 2)), dict(shape=(3, 2), _tier="thorough")], max_paths=6000, wall_s=600, validate=False,
    bounds="CP-ALS, one sweep, rank 1, exact linear solve; data concrete, starting guess symbolic; data scaled by a symbolic positive constant c")
def cp_als_scaling(E, shape):
    """scaling the data by c > 0 scales the weights by c and leaves factors and fit unchanged"""
    c = E.real("c", positive=True)
    X = ttb.tensor(E.const(_vals(shape)))
    Xc = ttb.tensor(E.const(_vals(shape)) * c, copy=False)
    K0 = O.kruskal(E, "g", shape, 1)
    sa = _cut_run(E, X, K0.copy())
    sb = _cut_run(E, Xc, K0.copy())
    if sa is None or sb is None:
        return
    E.eq(sb["M"].weights, O.cells(sa["M"].weights) * c, "weights scale by c")
    for n in range(len(shape)):
        E.eq(sb["M"].factor_matrices[n], O.cells(sa["M"].factor_matrices[n]), f"factor {n} unchanged")
    # (compared through squares: with ||cX|| = c ||X|| this gives the same fit, 1 - residual / ||X||)
    E.eq(sb["normresidual"] * sb["normresidual"], sa["normresidual"] * sa["normresidual"] * c * c, "residual norm scales by c (squares compared)")


def _cut_run(E, X, K0, dimorder=None):
    """one sweep with the exact solve stand-in, stopped before the final arrange; -> cp_als locals"""
    import sys
    from symx.core import Cut
    real_arrange = ttb.ktensor.arrange

    def arrange(self, *a, **k):
        fr = sys._getframe(1)
        if fr.f_code.co_name == "cp_als":
            loc = dict(fr.f_locals)
            missing = [k for k in ("M", "fit", "normresidual") if k not in loc]
            if missing:
                from symx.core import Unmodelled
                raise Unmodelled(f"cp_als internals changed: local variable(s) {missing} not found at the final arrange")
            raise Cut(loc)
        return real_arrange(self, *a, **k)
    ttb.ktensor.arrange = arrange
    try:
        try:
            ttb.cp_als(X, 1, stoptol=1e-4, maxiters=1, dimorder=dimorder, init=K0, printitn=0)
        except Cut as cexc:
            return cexc.payload
    finally:
        ttb.ktensor.arrange = real_arrange
    E.true(False, "the sweep reached the final arrange")
    return None


# (2x3x2 with a cyclic relabelling exhausts a 600 s budget -- not registered)
@ob("C18", params=[dict(shape=(2, 3), perm=(1, 0))], max_paths=6000, wall_s=600, validate=False,
    bounds="CP-ALS, one sweep, rank 1, exact solve: data, starting guess and mode order relabelled consistently by a mode permutation")
def cp_als_relabelling(E, shape, perm):
    """relabelling the modes of data, guess and dimorder consistently relabels the modes of the result"""
    N = len(shape)
    X = ttb.tensor(E.const(_vals(shape)))
    K0 = O.kruskal(E, "g", shape, 1)
    sa = _cut_run(E, X, K0.copy(), dimorder=list(range(N)))
    Xp = X.permute(np.array(perm))
    Kp = K0.copy().permute(np.array(perm))
    # mode k of the permuted problem is mode perm[k] of the original: update the modes in the corresponding order
    inv = [list(perm).index(m) for m in range(N)]
    sb = _cut_run(E, Xp, Kp, dimorder=inv)
    if sa is None or sb is None:
        return
    E.eq(sb["M"].weights, O.cells(sa["M"].weights), "same weights")
    for k in range(N):
        E.eq(sb["M"].factor_matrices[k], O.cells(sa["M"].factor_matrices[perm[k]]), f"factor {k} of the relabelled run == factor {perm[k]} of the original run")
    E.eq(sb["fit"], sa["fit"], "same fit")


@ob("C18", params=[dict(alg="hosvd", shape=(2, 2)), dict(alg="hosvd", shape=(2, 3)), dict(alg="tucker_als", shape=(2, 3))], max_paths=6000, wall_s=600, validate=False, env_stub=True,
    bounds="HOSVD (concrete data, symbolic tolerance, real eigen-solver) and Tucker-ALS (nvecs stub) with printing / verbosity off and on")
def tucker_printing(E, alg, shape):
    """verbosity / printitn settings do not change the returned Tucker tensor or the reported fit"""
    X = ttb.tensor(E.const(_vals(shape)))
    if alg == "hosvd":
        tol = E.real("tol", lo=0)
        E.assume((tol > 0) & (tol < 1))
        res = []
        for verbosity in (0, 1, 10):
            with H.eig(E, psd=True) as st:
                T = ttb.hosvd(X, tol, verbosity=verbosity)
            res.append(T)
        for T in res[1:]:
            E.eq(O.den(T.core), O.den(res[0].core), "same core")
            for n in range(len(shape)):
                E.eq(T.factor_matrices[n], O.cells(np.asarray(res[0].factor_matrices[n])), "same factors")
    else:
        U0 = [E.reals(f"U{n}_", (shape[n], 1)) for n in range(len(shape))]
        outs = []
        for printitn in (0, 1):
            with H.nvecs_stub(E) as st:
                T, Ui, out = ttb.tucker_als(X, [1] * len(shape), maxiters=1, init=[u.copy() for u in U0], printitn=printitn)
            outs.append((T, out))
        (Ta, oa), (Tb, ob_) = outs
        E.eq(O.den(Tb.core), O.den(Ta.core), "same core")
        for n in range(len(shape)):
            E.eq(Tb.factor_matrices[n], O.cells(np.asarray(Ta.factor_matrices[n])), "same factors")
        E.eq(ob_["fit"], oa["fit"], "same fit")



def _apr(E, X, K0, alg, **kw):
    with contextlib.redirect_stdout(io.StringIO()):
        M, _, out = ttb.cp_apr(X, K0.ncomponents, algorithm=alg, init=K0, **kw)
    return M, out


def _apr_guess(E, shape, R, w=None, zero=True):
    """starting guess for CP-APR: concrete non-negative factors (an exact zero in factor 0 when R == 2); weights
    concrete, or a concrete vector scaled by the symbolic positive number w"""
    from symx import npenv
    base = {(2, 1): [[3.0], [1.0]], (3, 1): [[2.0], [1.0], [1.0]], (2, 2): [[3.0, 0.0 if zero else 1.0], [2.0, 1.0]], (3, 2): [[1.0, 2.0], [2.0, 1.0], [1.0, 1.0]]}
    fs = [E.const(np.array(base[(s, R)])[:: (1 if k % 2 == 0 else -1)].copy()) for k, s in enumerate(shape)]
    lam = [2.0, 3.0][:R]
    if w is None:
        return ttb.ktensor(fs, E.const(np.array(lam)), copy=False)
    ws = [w * v for v in lam]
    return ttb.ktensor(fs, (npenv.obj_array(ws) if E.sym else np.array(ws, dtype=float)), copy=False)


def _same_apr(E, Ma, oa, Mb, ob_, label):
    """the property speaks of the *model*: weights and factors (and the objective, a function of the model); iteration
    counts and KKT histories legitimately differ between the dense and the sparse path (empty rows are skipped)"""
    _same_model(E, Ma, Mb, label)
    E.eq(oa["obj"], ob_["obj"], f"{label}: same objective")


@ob("C18", params=[dict(alg="mu", R=1, iters=2, sym="w"), dict(alg="mu", R=1, iters=2, sym="x"), dict(alg="mu", R=2, iters=2, sym="w")], max_paths=6000, wall_s=300, validate=False, canon=True,
    bounds="CP-APR (MU), 2x2 count data with a zero; guess with concrete factors (one exact zero in factor 0 for R = 2); ONE symbolic positive input: "
           "either the scale w of the guess's weights or the data entry x = X[0,0]; 2 outer iterations of one inner iteration each; printitn 0 vs 1; "
           "log uninterpreted; rational functions kept in canonical form (symx/poly.py)")
def cp_apr_printing(E, alg, R, iters, sym):
    """CP-APR with printing off / on: same model and objective"""
    vals = E.const(np.array([[3.0, 0.0], [1.0, 2.0]]))
    w = None
    if sym == "x":
        vals[0, 0] = E.real("x", positive=True)
    else:
        w = E.real("w", positive=True)
    X = ttb.tensor(vals, copy=False)
    K0 = _apr_guess(E, (2, 2), R, w)
    Ma, oa = _apr(E, X, K0.copy(), alg, maxiters=iters, maxinneriters=1, printitn=0)
    Mb, ob_ = _apr(E, X, K0.copy(), alg, maxiters=iters, maxinneriters=1, printitn=1)
    _same_apr(E, Ma, oa, Mb, ob_, "printitn 0 vs 1")


_DVS_BOUNDS = ("CP-APR, 2x2 count data with an empty row held dense and sparse; rank-1 guess with concrete positive factors and weights scaled by ONE symbolic "
               "positive number w; 1 outer iteration, 1-2 inner iterations; log uninterpreted; canonical rational functions")


def _dvs(E, alg, R, sym, inner):
    vals = E.const(np.array([[3.0, 2.0], [0.0, 0.0]]))
    w = None
    if sym == "x":
        vals[0, 0] = E.real("x", positive=True)
    else:
        w = E.real("w", positive=True)
    Xd = ttb.tensor(vals, copy=False)
    Xs = Xd.to_sptensor()
    K0 = _apr_guess(E, (2, 2), R, w, zero=False)
    Ma, oa = _apr(E, Xd, K0.copy(), alg, maxiters=1, maxinneriters=inner, printitn=0)
    Mb, ob_ = _apr(E, Xs, K0.copy(), alg, maxiters=1, maxinneriters=inner, printitn=0)
    _same_apr(E, Ma, oa, Mb, ob_, "dense vs sparse")


@ob("C18", params=[dict(alg="mu", R=1, sym="w", inner=i) for i in (1, 2)], max_paths=6000, wall_s=300, validate=False, canon=True, bounds=_DVS_BOUNDS)
def cp_apr_dense_vs_sparse(E, alg, R, sym, inner):
    """CP-APR (MU) on a dense tensor and on the sparse tensor holding the same array: same model and objective"""
    _dvs(E, alg, R, sym, inner)


@ob("C18", params=[dict(alg=a, R=1, sym="w", inner=1, _tier="thorough") for a in ("pdnr", "pqnr")], max_paths=20000, wall_s=400, validate=False, canon=True, gating=False,
    bounds=_DVS_BOUNDS)
def cp_apr_newton_dense_vs_sparse(E, alg, R, sym, inner):
    """CP-APR (PDNR / PQNR) dense vs sparse: attempted, non-gating (row sub-problem solvers: degree-30+ rational functions per inner iteration)"""
    _dvs(E, alg, R, sym, inner)


_TOL_DATA = {"2x2": [[3.0, 2.0], [0.0, 0.0]], "3x2": [[0.0, 0.0], [1.0, 4.0], [2.0, 0.0]], "2x3": [[2.0, 0.0, 1.0], [0.0, 0.0, 0.0]]}


@ob("C18", params=[dict(alg="pdnr", data="2x2", R=1, iters=1, inner=2), dict(alg="pdnr", data="2x2", R=1, iters=2, inner=3), dict(alg="mu", data="2x2", R=1, iters=2, inner=2),
                   dict(alg="pdnr", data="3x2", R=1, iters=2, inner=2), dict(alg="pdnr", data="2x3", R=1, iters=2, inner=2), dict(alg="mu", data="3x2", R=2, iters=2, inner=2),
                   dict(alg="pdnr", data="3x2", R=2, iters=1, inner=2, _tier="thorough"), dict(alg="pdnr", data="2x3", R=2, iters=2, inner=2, _tier="thorough")],
    max_paths=400, wall_s=300, validate=False, canon=True,
    bounds="CP-APR (PDNR, MU) on concrete count data with an empty row (and an empty column) held dense and sparse, concrete guess; the symbolic input is the stopping "
           "tolerance stoptol in (0, 1) (every ordering of the tolerance against the KKT violations met is a path); exact rational arithmetic, log of constants evaluated")
def cp_apr_tolerance_dense_vs_sparse(E, alg, data, R, iters, inner):
    """for every stopping tolerance: CP-APR on the dense and on the sparse holder of the same data gives the same model and objective"""
    arr = np.array(_TOL_DATA[data])
    vals = E.const(arr)
    tol = E.real("tol", positive=True, hi=1)
    Xd = ttb.tensor(vals, copy=False)
    Xs = Xd.to_sptensor()
    K0 = _apr_guess(E, arr.shape, R, None, zero=False)
    Ma, oa = _apr(E, Xd, K0.copy(), alg, maxiters=iters, maxinneriters=inner, printitn=0, stoptol=tol)
    Mb, ob_ = _apr(E, Xs, K0.copy(), alg, maxiters=iters, maxinneriters=inner, printitn=0, stoptol=tol)
    _same_apr(E, Ma, oa, Mb, ob_, "dense vs sparse")


def _drawkey(v):
    from symx import core
    return (v.n.uid, None if v.d is None else v.d.uid) if core.is_sym(v) else float(v)


@ob("C18", params=[dict(alg="cp_als", vary="printitn"), dict(alg="cp_als", vary="kind"), dict(alg="tucker_als", vary="printitn")],
    max_paths=6000, wall_s=300, validate=False, env_stub=True, canon=False,
    bounds="random starts: np.random is a stub whose k-th draw is the symbol rng_k (= the global stream after a fixed seed); two runs on the same stream that differ only in "
           "printing or in the dense / sparse holder; CP-ALS one sweep (opaque solves), Tucker-ALS one sweep (nvecs stub); 2x3 data, rank 1 (CP-APR with a random start: five symbolic draws, no path within 14 min: not registered)")
def random_start_same_stream(E, alg, vary):
    """same seed => same stream => the two runs draw the same values in the same order, never reseed, and return the same starting guess and model"""
    shape = (2, 3)
    vals = _vals(shape) if alg != "cp_apr" else np.array([[3.0, 0.0, 1.0], [1.0, 2.0, 0.0]])
    Xd = ttb.tensor(E.const(vals))
    variants = [(Xd, 0), (Xd, 1)] if vary == "printitn" else [(Xd, 0), (Xd.to_sptensor(), 0)]
    outs = []
    for X, pr in variants:
        if alg == "cp_als":
            st, rng, nv, sv = _run(E, X, 1, None, None, "random", pr, True, cut=True)
            if "locals" not in st:
                from symx.core import Unmodelled
                raise Unmodelled("cp_als internals changed: the final arrange was not reached from cp_als")
            outs.append((rng, st["locals"]["M"], st["locals"]["init"] if "init" in st["locals"] else None))
        elif alg == "tucker_als":
            with H.rng(E) as rng, H.nvecs_stub(E):
                with contextlib.redirect_stdout(io.StringIO()):
                    T, Ui, out = ttb.tucker_als(X, [1, 1], maxiters=1, init="random", printitn=pr)
            outs.append((rng, T, Ui))
        else:
            with H.rng(E) as rng:
                with contextlib.redirect_stdout(io.StringIO()):
                    M, Mi, out = ttb.cp_apr(X, 1, algorithm="mu", init="random", maxiters=1, maxinneriters=1, printitn=pr)
            outs.append((rng, M, Mi))
    (ra, Ma, Ia), (rb, Mb, Ib) = outs
    E.true(len(ra.draws) > 0 and len(ra.draws) == len(rb.draws), "both runs draw the same number of values from the global stream", f"{len(ra.draws)} vs {len(rb.draws)}")
    E.true([_drawkey(v) for v in ra.draws] == [_drawkey(v) for v in rb.draws], "the k-th draw of both runs is the k-th value of the stream")
    E.true(ra.seeds == [] and rb.seeds == [], "the algorithm does not reseed the global stream")
    if alg == "tucker_als":
        E.eq(O.den(Mb.core), O.den(Ma.core), "same core")
        for n in range(2):
            E.eq(Mb.factor_matrices[n], O.cells(np.asarray(Ma.factor_matrices[n])), "same factors")
            E.eq(Ib[n], O.cells(np.asarray(Ia[n])), "same starting guess")
    else:
        _same_model(E, Ma, Mb, "same stream")
        if Ia is not None and Ib is not None and hasattr(Ia, "factor_matrices"):
            _same_model(E, Ia, Ib, "starting guess")
