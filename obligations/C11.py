"""C11 -- CP-APR: the kernels the three algorithms are made of, and one bounded multiplicative-update run.

Whole PDNR/PQNR runs (logarithms, line searches, hundreds of iterations) are out of reach of bounded symbolic
execution; claimed here: Pi / Phi (dense branch == sparse branch == definition, incl. the max(., eps) switch),
the log-likelihood (log uninterpreted), non-negativity of the multiplicative update and of one MU run, truthful
objective of that run, bookkeeping."""
import itertools

import numpy as np
import pyttb as ttb
import sys
import pyttb.cp_apr  # noqa: F401
apr = sys.modules["pyttb.cp_apr"]
from symx.runner import ob
from symx import oracles as O
from symx import harness as H


def _model(E, shape, R, name="m"):
    fs = [E.reals(f"{name}U{n}_", (s, R), positive=True) for n, s in enumerate(shape)]
    w = E.reals(f"{name}w", (R,), positive=True)
    return ttb.ktensor(fs, w, copy=False)


def _pi_ref(K, n):
    """Pi[j, r] = prod_{m != n} U_m[i_m, r], rows j enumerating the other modes with the first one fastest"""
    shape = K.shape
    others = [m for m in range(len(shape)) if m != n]
    R = K.ncomponents
    rows = int(np.prod([shape[m] for m in others])) if others else 1
    out = O.zeros((rows, R))
    for idx in np.ndindex(*[shape[m] for m in others]):
        j = O.lin_index(idx, [shape[m] for m in others])
        for r in range(R):
            t = 1.0
            for k, m in enumerate(others):
                t = t * K.factor_matrices[m][idx[k], r]
            out[j, r] = t
    return out


def _phi_ref(xc, K, n, eps):
    """Phi[i, r] = sum_j X_(n)[i, j] / max(M_(n)[i, j], eps) * Pi[j, r]"""
    shape = K.shape
    others = [m for m in range(len(shape)) if m != n]
    Pi = _pi_ref(K, n)
    R = K.ncomponents
    out = O.zeros((shape[n], R))
    for idx in np.ndindex(*shape):
        j = O.lin_index([idx[m] for m in others], [shape[m] for m in others])
        i = idx[n]
        v = 0.0
        for r in range(R):
            v = v + K.factor_matrices[n][i, r] * Pi[j, r]
        den = v if (v >= eps) else eps
        for r in range(R):
            out[i, r] = out[i, r] + xc[idx] / den * Pi[j, r]
    return out


KSHAPES = [dict(shape=(2, 2), R=1), dict(shape=(2, 2), R=2), dict(shape=(2, 3), R=1, _tier="thorough"), dict(shape=(2, 2, 2), R=1, _tier="thorough")]


# (2x2x2 exhausts a 900 s budget for Pi / Phi: 2^8 data patterns times the model forks -- not registered there)
@ob("C11", params=[dict(p, n=n) for p in KSHAPES if len(p["shape"]) == 2 for n in range(len(p["shape"]))], max_paths=40000, wall_s=900,
    bounds="non-negative symbolic count data (every sparsity pattern by forks), positive symbolic model; every mode n; eps = 1e-10 (both sides of the max(., eps) switch are feasible only through the model: by forks)")
def pi_phi(E, shape, R, n):
    """calculate_pi / calculate_phi: dense branch == sparse branch == definition"""
    N = len(shape)
    X = O.dense(E, "x", shape, nonneg=True)
    xc = O.cells(X.data)
    K = _model(E, shape, R)
    K.weights[...] = 1.0  # the MU sweep calls the kernels after redistribute(mode): weights are one there
    Pi_d = apr.calculate_pi(X, K, R, n, N)
    E.eq(Pi_d, _pi_ref(K, n), "dense Pi == products of the other factors' rows")
    eps = 1e-10
    Phi_d = apr.calculate_phi(X, K, R, n, Pi_d, eps)
    ref = _phi_ref(xc, K, n, eps)
    E.eq(Phi_d, ref, "dense Phi == definition")
    S = X.to_sptensor()
    Pi_s = apr.calculate_pi(S, K, R, n, N)
    subs = np.asarray(S.subs)
    others = [m for m in range(N) if m != n]
    for k in range(subs.shape[0] if subs.size else 0):
        for r in range(R):
            t = 1.0
            for m in others:
                t = t * K.factor_matrices[m][int(subs[k, m]), r]
            E.eq(Pi_s[k, r], t, "sparse Pi row == products of the other factors at the stored subscript")
    Phi_s = apr.calculate_phi(S, K, R, n, Pi_s, eps)
    E.eq(Phi_s, ref, "sparse Phi == dense Phi == definition")
    for v in np.asarray(Phi_d).ravel().tolist():
        E.true(v >= 0, "Phi is non-negative for non-negative data and a positive model")
    upd = K.factor_matrices[n] * Phi_d
    for v in np.asarray(upd).ravel().tolist():
        E.true(v >= 0, "multiplicative update keeps the factor non-negative")


@ob("C11", params=KSHAPES, max_paths=40000, wall_s=900, validate=False,
    bounds="non-negative symbolic data (patterns by forks), positive symbolic model with weights; the logarithm is opaque: every call returns a fresh symbol and its argument is compared in the reals")
def loglikelihood(E, shape, R):
    """tt_loglikelihood (dense and sparse) == sum x log m - sum m of the array the model denotes; the model's array is not changed"""
    X = O.dense(E, "x", shape, nonneg=True)
    xc = O.cells(X.data)
    K = _model(E, shape, R)
    m = O.den(K)
    tot = 0.0
    for i in np.ndindex(*shape):
        tot = tot + m[i]
    nzcells = [i for i in np.ndindex(*shape) if (xc[i] != 0)]
    for kind in ("dense", "sparse"):
        Kc = K.copy()
        data = X if kind == "dense" else X.to_sptensor()
        with H.log_stub(E) as calls:
            got = apr.tt_loglikelihood(data, Kc)
        E.true(len(calls) == len(nzcells), f"{kind}: one logarithm per non-zero data entry", f"{len(calls)} vs {len(nzcells)}")
        if len(calls) != len(nzcells):
            continue
        # dense visits the mode-1 unfolding row by row; sparse visits the stored entries (first index fastest)
        if kind == "dense":
            N = len(shape)
            rest = [d for d in range(N) if d != 1]
            order = []
            for i1 in range(shape[1] if N > 1 else 1):
                for idx in np.ndindex(*[shape[d] for d in rest][::-1]):
                    full = [0] * N
                    for d, v in zip(rest, idx[::-1]):
                        full[d] = v
                    if N > 1:
                        full[1] = i1
                    order.append(tuple(full))
            visit = [i for i in order if i in set(nzcells)]
        else:
            visit = [tuple(int(v) for v in r) for r in np.asarray(data.subs).tolist()]
        ref = 0.0
        for (arg, sym), cell in zip(calls, visit):
            E.eq(arg, m[cell], f"{kind}: the logarithm is taken of the model value at the data entry")
            ref = ref + xc[cell] * sym
        E.eq(got, ref - tot, f"{kind}: log-likelihood == sum x log m - sum m")
        E.eq(O.den(Kc), m, f"{kind}: the model's array is unchanged by the evaluation")


def _log(E, v):
    from symx import core
    if core.is_sym(v):
        return core.cur().hooks.log(v)
    import math
    return math.log(v)


@ob("C11", params=[dict(kind=k, inner=1, _tier="thorough") for k in ("dense", "sparse")], max_paths=40000, wall_s=400, validate=False, gating=False,
    bounds="one outer iteration of the multiplicative-update algorithm on 2x2 data (concrete counts with a zero); rank-1 starting guess with a symbolic positive weight and a symbolic positive scale on one factor; 1-2 inner iterations")
def mu_run(E, kind, inner):
    """one MU run: rank / shape, non-negative weights and factors, kktViolations >= 0 with one entry per outer iteration, reported objective == log-likelihood of the returned model, guess and data untouched"""
    vals = np.array([[3.0, 0.0], [1.0, 2.0]])
    X = ttb.tensor(E.const(vals))
    if kind == "sparse":
        X = X.to_sptensor()
    xc = O.den(X)
    # starting guess: concrete positive factors, one of them scaled by a symbolic positive number t and a symbolic
    # positive weight (a fully symbolic guess makes every normalisation / KKT decision a high-degree inequality)
    t = E.real("t", positive=True)
    w = E.real("w", positive=True)
    from symx import npenv
    f0 = E.const(np.array([[1.0], [2.0]])) * t
    K0 = ttb.ktensor([f0, E.const(np.array([[1.0], [3.0]]))], (npenv.obj_array([w]) if E.sym else np.array([w])), copy=False)
    snap = (O.cells(K0.weights), [O.cells(f) for f in K0.factor_matrices])
    M, Minit, out = ttb.cp_apr(X, 1, algorithm="mu", init=K0, maxiters=1, maxinneriters=inner, printitn=0, stoptol=1e-4)
    E.true(M.ncomponents == 1 and M.shape == (2, 2), "rank and shape of the returned model")
    for v in np.asarray(M.weights).ravel().tolist():
        E.true(v >= 0, "weights non-negative")
    for f in M.factor_matrices:
        for v in np.asarray(f).ravel().tolist():
            E.true(v >= 0, "factor entries non-negative")
    kkt = np.asarray(out["kktViolations"]).ravel().tolist()
    E.true(len(kkt) == 1, "one KKT entry per outer iteration performed", f"{len(kkt)}")
    for v in kkt:
        E.true(v >= 0, "KKT violations non-negative")
    m = O.den(M)
    ref = 0.0
    tot = 0.0
    for i in np.ndindex(2, 2):
        tot = tot + m[i]
        if (xc[i] != 0):
            ref = ref + xc[i] * _log(E, m[i])
    E.eq(out["obj"], ref - tot, "reported objective == Poisson log-likelihood of the returned model")
    E.eq(K0.weights, snap[0], "caller's guess: weights unchanged")
    for n in range(2):
        E.eq(K0.factor_matrices[n], snap[1][n], "caller's guess: factors unchanged")
    E.true(Minit is K0, "the returned initial guess is the one passed")
    E.eq(O.den(X), xc, "data unchanged")



# ------------------------------------------------------------------------------------------------------------------
# whole runs with a symbolic stopping tolerance

_RUN_DATA = {"2x2": [[3.0, 0.0], [1.0, 2.0]], "2x2e": [[3.0, 2.0], [0.0, 0.0]], "3x2": [[0.0, 0.0], [1.0, 4.0], [2.0, 0.0]], "2x2x2": [[[1.0, 0.0], [2.0, 1.0]], [[0.0, 3.0], [0.0, 1.0]]]}
_RUN_GUESS = {2: [[3.0, 1.0], [2.0, 1.0]], 3: [[1.0, 2.0], [2.0, 0.0], [1.0, 1.0]], "2z": [[3.0, 1.0], [0.0, 0.0]]}


def _loglik(xc, m):
    import math
    ref = 0.0
    for i in np.ndindex(*xc.shape):
        x, v = float(xc[i]), float(m[i])
        if x != 0:
            if v <= 0:
                return float("-inf")  # the model excludes an observed count
            ref += x * math.log(v)
        ref -= v
    return ref


@ob("C11", params=[dict(alg="mu", data="2x2", kind="dense", R=1, iters=2), dict(alg="mu", data="3x2", kind="sparse", R=2, iters=2), dict(alg="mu", data="2x2x2", kind="dense", R=2, iters=2),
                   dict(alg="pdnr", data="2x2", kind="dense", R=1, iters=2), dict(alg="pdnr", data="2x2e", kind="sparse", R=1, iters=2), dict(alg="pdnr", data="3x2", kind="dense", R=2, iters=2),
                   dict(alg="pdnr", data="3x2", kind="sparse", R=2, iters=1), dict(alg="pdnr", data="2x2x2", kind="sparse", R=2, iters=1, _tier="thorough"),
                   dict(alg="pqnr", data="2x2", kind="dense", R=1, iters=2), dict(alg="pqnr", data="2x2", kind="sparse", R=2, iters=1),
                   dict(alg="pdnr", data="2x2", kind="dense", R=2, iters=2, zero_row=True), dict(alg="mu", data="2x2", kind="sparse", R=2, iters=2, zero_row=True)],
    max_paths=600, wall_s=300, validate=False, canon=True,
    bounds="complete bounded runs (1-2 outer iterations, 2 inner iterations) on concrete count data with zeros / empty slices and a concrete non-negative guess (with a zero entry; with an all-zero row); "
           "the symbolic input is the stopping tolerance stoptol in (0, 1): every ordering of the tolerance against the KKT violations met is a path; exact rational arithmetic, "
           "log of constants evaluated in floating point")
def run_for_every_tolerance(E, alg, data, kind, R, iters, zero_row=False):
    """for every stopping tolerance the run returns a rank-R model of the data's shape with non-negative weights and entries; one non-negative KKT entry per outer iteration performed (<= maxiters); reported objective == recomputed log-likelihood of the returned model, not below the starting guess's; data and guess untouched"""
    arr = np.array(_RUN_DATA[data])
    X = ttb.tensor(E.const(arr), copy=False)
    if kind == "sparse":
        X = X.to_sptensor()
    xc = O.den(X)
    tol = E.real("tol", positive=True, hi=1)
    fs = [E.const(np.array(_RUN_GUESS["2z" if (zero_row and k == 0) else s])[:, :R][:: (1 if k % 2 == 0 else -1)].copy()) for k, s in enumerate(arr.shape)]
    K0 = ttb.ktensor(fs, E.const(np.array([2.0, 3.0][:R])), copy=False)
    snap = (O.cells(K0.weights), [O.cells(f) for f in K0.factor_matrices])
    start = _loglik(np.asarray(arr), np.asarray(O.den(K0), dtype=float))
    M, Minit, out = ttb.cp_apr(X, R, algorithm=alg, init=K0, maxiters=iters, maxinneriters=2, printitn=0, stoptol=tol)
    E.true(M.ncomponents == R and M.shape == arr.shape, "rank and shape of the returned model")
    for v in np.asarray(M.weights).ravel().tolist():
        E.true(v >= 0, "weights non-negative")
    for f in M.factor_matrices:
        for v in np.asarray(f).ravel().tolist():
            E.true(v >= 0, "factor entries non-negative")
    kkt = np.asarray(out["kktViolations"]).ravel().tolist()
    E.true(1 <= len(kkt) <= iters, "one KKT entry per outer iteration performed, at most maxiters", f"{len(kkt)}")
    for v in kkt:
        E.true(v >= 0, "KKT violations non-negative")
    m = np.asarray(O.den(M), dtype=float)
    ref = _loglik(np.asarray(arr), m)
    E.true(float(out["obj"]) == ref or abs(float(out["obj"]) - ref) <= 1e-9 * max(1.0, abs(ref)), "reported objective == Poisson log-likelihood of the returned model", f"{float(out['obj'])} vs {ref}")
    E.true(ref >= start - 1e-9 * max(1.0, abs(start)) if start != float("-inf") else True, "the result is at least as likely as the starting guess", f"{ref} vs {start}")
    E.eq(K0.weights, snap[0], "caller's guess: weights unchanged")
    for n in range(len(arr.shape)):
        E.eq(K0.factor_matrices[n], snap[1][n], "caller's guess: factors unchanged")
    E.eq(O.den(X), xc, "data unchanged")
