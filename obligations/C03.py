"""C03 -- sparse element-wise arithmetic, logic and comparison match dense semantics."""
import itertools
import math

import numpy as np
import pyttb as ttb
from symx.runner import ob
from symx import oracles as O

NAN, INF = float("nan"), float("inf")


def _div(a, b):
    if (b == 0):
        if (a == 0):
            return NAN
        return INF if (a > 0) else -INF
    return a / b


def _t(c):
    return 1.0 if c else 0.0


OPS = {
    "add": (lambda x, y: x + y, lambda a, b: a + b),
    "sub": (lambda x, y: x - y, lambda a, b: a - b),
    "mul": (lambda x, y: x * y, lambda a, b: a * b),
    "div": (lambda x, y: x / y, _div),
    "eq": (lambda x, y: x == y, lambda a, b: _t(a == b)),
    "ne": (lambda x, y: x != y, lambda a, b: _t(a != b)),
    "lt": (lambda x, y: x < y, lambda a, b: _t(a < b)),
    "le": (lambda x, y: x <= y, lambda a, b: _t(a <= b)),
    "gt": (lambda x, y: x > y, lambda a, b: _t(a > b)),
    "ge": (lambda x, y: x >= y, lambda a, b: _t(a >= b)),
    "and": (lambda x, y: x.logical_and(y), lambda a, b: _t((a != 0) and (b != 0))),
    "or": (lambda x, y: x.logical_or(y), lambda a, b: _t((a != 0) or (b != 0))),
    "xor": (lambda x, y: x.logical_xor(y), lambda a, b: _t((a != 0) != (b != 0))),
}
ROPS = {  # reflected forms with a scalar on the left
    "rmul": (lambda x, s: s * x, lambda a, s: s * a),
    "rdiv": (lambda x, s: s / x, lambda a, s: _div(s, a)),
}


def _ref(c, other, fn):
    out = O.zeros(c.shape)
    for i in np.ndindex(*c.shape):
        out[i] = fn(c[i], other[i] if isinstance(other, np.ndarray) else other)
    return out


def _judge(E, got, ref, label, shape, filtered=True):
    E.true(isinstance(got, (ttb.sptensor, ttb.tensor)), f"{label}: returns a tensor object", type(got).__name__)
    if isinstance(got, ttb.sptensor):
        O.wellformed(E, got, label, filtered=filtered)
    if isinstance(got, (ttb.sptensor, ttb.tensor)):
        E.true(got.shape == tuple(shape), f"{label}: shape")
        E.eq(O.den(got), ref, label)


def binop_body(E, op, rhs, shape, lhs="patterns", lpos=None, lorder=None, rpos=None, rorder=None):
    fn, ref = OPS[op]
    if lhs == "patterns":
        X = O.dense(E, "x", shape)
        cx = O.cells(X.data)
        S = X.to_sptensor()
    else:
        S, pv = O.sparse_direct(E, "x", shape, lpos, lorder)
        cx = O.sparse_ref(shape, pv)
    if rhs == "sparse":
        if rpos is None:
            Y = O.dense(E, "y", shape)
            cy = O.cells(Y.data)
            other = Y.to_sptensor()
        else:
            other, pv2 = O.sparse_direct(E, "y", shape, rpos, rorder)
            cy = O.sparse_ref(shape, pv2)
    elif rhs == "dense":
        other = O.dense(E, "y", shape)
        cy = O.cells(other.data)
    else:
        other = E.real("s")
        cy = other
    ok, got = E.call(lambda: fn(S, other), f"{op}({rhs})")
    if ok:
        # scaling by a scalar neither combines nor filters entries: explicit zeros (s == 0) are not gated there
        filtered = not (rhs == "scalar" and op in ("mul", "div"))
        _judge(E, got, _ref(cx, cy, ref), f"sptensor {op} {rhs}", shape, filtered=filtered)
    E.eq(O.den(S), cx, "receiver unchanged")


def _params(shapes_q, shapes_t, ops=None, rhss=("sparse", "dense", "scalar")):
    out = []
    for op in (ops or OPS):
        for rhs in rhss:
            for s in shapes_q:
                out.append(dict(op=op, rhs=rhs, shape=s))
            for s in shapes_t:
                out.append(dict(op=op, rhs=rhs, shape=s, _tier="thorough"))
    return out


@ob("C03", params=_params([(1, 3), (2, 2)], [(4,), (2, 1, 2)]), max_paths=40000, wall_s=1500,
    bounds="both operands from dense symbolic arrays via to_sptensor: all 4^cells joint sparsity patterns, all signs / ties by forks; symbolic scalar")
def binop(E, op, rhs, shape):
    """sptensor (op) sptensor|tensor|scalar == the element-wise operation on the expanded arrays"""
    binop_body(E, op, rhs, shape)


@ob("C03", params=[dict(op=o, shape=s, _tier=t) for o in ROPS for s, t in [((1, 3), "quick"), ((2, 2), "thorough")]],
    bounds="scalar (symbolic, any sign / zero) on the left of + * /", max_paths=20000)
def reflected(E, op, shape):
    """scalar (op) sptensor == element-wise"""
    fn, ref = ROPS[op]
    X = O.dense(E, "x", shape)
    cx = O.cells(X.data)
    S = X.to_sptensor()
    s = E.real("s")
    ok, got = E.call(lambda: fn(S, s), op)
    if ok:
        _judge(E, got, _ref(cx, s, ref), f"scalar {op} sptensor", shape, filtered=False)


@ob("C03", params=[dict(shape=(1, 3)), dict(shape=(2, 2)), dict(shape=(3,), _tier="thorough")],
    bounds="unary operations on every sparsity pattern")
def unary(E, shape):
    """logical_not, negation, +, ones, elemfun on stored values"""
    X = O.dense(E, "x", shape)
    cx = O.cells(X.data)
    S = X.to_sptensor()
    got = S.logical_not()
    _judge(E, got, _ref(cx, None, lambda a, b: _t(not (a != 0))), "logical_not", shape)
    _judge(E, -S, _ref(cx, None, lambda a, b: -a), "neg", shape)
    _judge(E, +S, cx, "pos", shape)
    _judge(E, S.ones(), _ref(cx, None, lambda a, b: _t(a != 0)), "ones", shape)
    # (elemfun keeps only positive results -- documented MATLAB heritage, not part of C03's statement --
    #  so the function used here is positive on non-zero arguments)
    got = S.elemfun(lambda v: v * v * 2.0)
    E.eq(O.den(got), _ref(cx, None, lambda a, b: a * a * 2.0), "elemfun on stored values")


@ob("C03", params=[dict(op=o) for o in OPS],
    bounds="2x2; both operands built directly (3 and 2 stored non-zero symbolic values, overlapping in two cells) and stored in opposite relative orders")
def binop_stored_orders(E, op):
    """the operators pair the entries of the two operands by subscript, not by stored position"""
    binop_body(E, op, "sparse", (2, 2), lhs="direct", lpos=((0, 1), (1, 0), (1, 1)), lorder=(2, 0, 1), rpos=((1, 1), (0, 1)), rorder=(1, 0))
