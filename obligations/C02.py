"""C02 -- multilinear products equal their definition in every representation."""
import itertools

import numpy as np
import pyttb as ttb
from symx.runner import ob
from symx import oracles as O


def _subsets(N):
    for k in range(1, N + 1):
        for c in itertools.combinations(range(N), k):
            yield c


def _holders(E, shape, name="x"):
    """the same symbolic array held in different representations: [(label, object, den)]"""
    X = O.dense(E, name, shape)
    return X, O.cells(X.data)


# ----------------------------------------------------------------------------- dense

DENSE_SHAPES = [dict(shape=(2, 3)), dict(shape=(2, 3, 2)), dict(shape=(3, 2, 2), _tier="thorough"), dict(shape=(3,)),
                dict(shape=(2, 2, 2, 2), _tier="thorough")]


@ob("C02", params=DENSE_SHAPES, bounds="dense: every non-empty subset of modes as dims in every order, as exclude_dims; vector lists of length |dims| and N")
def dense_ttv(E, shape):
    """tensor.ttv == sum over the selected modes of X[i] prod v_m[i_m]"""
    X, c = _holders(E, shape)
    N = len(shape)
    vs = [E.reals(f"v{m}_", (shape[m],)) for m in range(N)]
    for sub in _subsets(N):
        ref = O.ref_ttv(c, {m: vs[m] for m in sub})
        for dims in itertools.permutations(sub):
            got = X.ttv([vs[m] for m in dims], dims=np.array(dims))
            E.eq(got, ref, f"ttv dims={dims} (|dims| vectors)")
        # (with |dims| == N both conventions apply; only the sorted order is unambiguous)
        nd = sub[::-1] if len(sub) < N else sub
        got = X.ttv(list(vs), dims=np.array(nd))
        E.eq(got, ref, f"ttv dims={nd} (N vectors)")
        excl = [m for m in range(N) if m not in sub]
        if excl:
            got = X.ttv([vs[m] for m in sub], exclude_dims=np.array(excl))
            E.eq(got, ref, f"ttv exclude_dims={excl}")
            got = X.ttv(list(vs), exclude_dims=np.array(excl[::-1]))
            E.eq(got, ref, f"ttv exclude_dims={excl[::-1]} (N vectors)")
        if len(sub) == 1:
            E.eq(X.ttv(vs[sub[0]], sub[0]), ref, f"ttv single vector mode {sub[0]}")
    E.eq(X.ttv(list(vs)), O.ref_ttv(c, {m: vs[m] for m in range(N)}), "ttv all modes default")


@ob("C02", params=DENSE_SHAPES, bounds="dense: every subset of modes / order / exclude_dims; matrices J x I_n with J=2 (3 for one mode); transpose flag")
def dense_ttm(E, shape):
    """tensor.ttm == n-mode matrix product, plain and transposed"""
    X, c = _holders(E, shape)
    N = len(shape)
    J = [3 if m == 0 else 2 for m in range(N)]
    Ms = [E.reals(f"M{m}_", (J[m], shape[m])) for m in range(N)]
    MsT = [M.T.copy() for M in Ms]
    for sub in _subsets(N):
        ref = O.ref_ttm(c, {m: Ms[m] for m in sub})
        perms = list(itertools.permutations(sub))
        for dims in (perms if len(sub) < 3 else perms[:3]):
            E.eq(X.ttm([Ms[m] for m in dims], dims=np.array(dims)).data, ref, f"ttm dims={dims}")
            E.eq(X.ttm([MsT[m] for m in dims], dims=np.array(dims), transpose=True).data, ref, f"ttm^T dims={dims}")
        nd = sub[::-1] if len(sub) < N else sub
        E.eq(X.ttm(list(Ms), dims=np.array(nd)).data, ref, f"ttm dims={nd} (N matrices)")
        excl = [m for m in range(N) if m not in sub]
        if excl:
            E.eq(X.ttm([Ms[m] for m in sub], exclude_dims=np.array(excl)).data, ref, f"ttm exclude_dims={excl}")
        if len(sub) == 1:
            E.eq(X.ttm(Ms[sub[0]], sub[0]).data, ref, f"ttm single matrix mode {sub[0]}")
            E.eq(X.ttm(MsT[sub[0]], sub[0], transpose=True).data, ref, f"ttm^T single matrix mode {sub[0]}")
    E.eq(X.ttm(list(Ms)).data, O.ref_ttm(c, {m: Ms[m] for m in range(N)}), "ttm all modes default")


@ob("C02", params=[dict(shape=(2, 3), R=2), dict(shape=(2, 3, 2), R=2), dict(shape=(3, 2, 2), R=1), dict(shape=(2, 2, 3), R=2, _tier="thorough"),
                   dict(shape=(2, 2, 2, 2), R=2), dict(shape=(2, 3, 2, 2), R=1), dict(shape=(2, 2, 3, 2, 2), R=1, _tier="thorough")],
    bounds="dense: every mode n (first/middle/last); factor list and Kruskal operand with non-unit weights; mttkrps")
def dense_mttkrp(E, shape, R):
    """tensor.mttkrp(U,n) == X_(n) KR(U_m, m != n), Kruskal weights applied; mttkrps == all modes at once"""
    X, c = _holders(E, shape)
    N = len(shape)
    K = O.kruskal(E, "k", shape, R)
    U = list(K.factor_matrices)
    for n in range(N):
        E.eq(X.mttkrp(U, n), O.ref_mttkrp(c, U, n), f"mttkrp(list, {n})")
        E.eq(X.mttkrp(K, n), O.ref_mttkrp(c, U, n, K.weights), f"mttkrp(ktensor, {n})")
    alls = X.mttkrps(U)
    E.true(len(alls) == N, "mttkrps returns one matrix per mode")
    for n in range(N):
        E.eq(alls[n], O.ref_mttkrp(c, U, n), f"mttkrps[{n}] (list)")
    allk = X.mttkrps(K)
    for n in range(N):
        E.eq(allk[n], O.ref_mttkrp(c, U, n, K.weights), f"mttkrps[{n}] (ktensor)")


@ob("C02", params=[dict(sa=(2, 3), sb=(3, 2)), dict(sa=(2, 3, 2), sb=(2, 3)), dict(sa=(2, 2), sb=(2, 2, 2), _tier="thorough")],
    bounds="dense x dense: outer product, every matching single / pair of contraction modes, full inner product")
def dense_ttt(E, sa, sb):
    """tensor.ttt == contraction over the paired modes; remaining modes of self then of other"""
    A, ca = _holders(E, sa, "a")
    B, cb = _holders(E, sb, "b")
    E.eq(A.ttt(B).data, O.ref_ttt(ca, cb), "outer product")
    for i in range(len(sa)):
        for j in range(len(sb)):
            if sa[i] == sb[j]:
                E.eq(A.ttt(B, i, j), O.ref_ttt(ca, cb, [i], [j]), f"ttt selfdims={i} otherdims={j}")
    for (i1, i2) in itertools.permutations(range(len(sa)), 2):
        for (j1, j2) in itertools.permutations(range(len(sb)), 2):
            if sa[i1] == sb[j1] and sa[i2] == sb[j2]:
                got = A.ttt(B, np.array([i1, i2]), np.array([j1, j2]))
                E.eq(got, O.ref_ttt(ca, cb, [i1, i2], [j1, j2]), f"ttt {i1, i2} x {j1, j2}")
    if sa == sb:
        E.eq(A.ttt(B, np.arange(len(sa))), O.ref_innerprod(ca, cb), "ttt all modes == innerprod")


@ob("C02", params=[dict(N=2, n=2), dict(N=3, n=2), dict(N=2, n=3, _tier="thorough"), dict(N=4, n=2, _tier="thorough")],
    bounds="cubical dense tensor, same vector in all but the first skip_dim+1 modes, both versions")
def dense_ttsv(E, N, n):
    """tensor.ttsv == ttv with the same vector in the trailing modes"""
    shape = (n,) * N
    X, c = _holders(E, shape)
    v = E.reals("v", (n,))
    for version in (None, 1, 2):
        E.eq(X.ttsv(v, version=version), O.ref_ttv(c, {m: v for m in range(N)}), f"ttsv all modes v{version}")
        for skip in range(N - 1):
            ref = O.ref_ttv(c, {m: v for m in range(skip + 1, N)})
            got = X.ttsv(v, skip_dim=skip, version=version)
            E.eq(got, ref, f"ttsv skip_dim={skip} v{version}")


@ob("C02", params=[dict(shape=(2, 3)), dict(shape=(2, 2, 2)), dict(shape=(3, 2, 2), _tier="thorough")],
    bounds="dense data; inner product with dense/sparse/Kruskal/Tucker partners; norm; contract every mode pair of equal size; collapse every subset (sum, max); scale along every mode / mode pair")
def dense_scalar_ops(E, shape):
    """innerprod, norm, contract, collapse, scale on a dense tensor equal their index definitions"""
    X, c = _holders(E, shape)
    N = len(shape)
    Y, cy = _holders(E, shape, "y")
    E.eq(X.innerprod(Y), O.ref_innerprod(c, cy), "innerprod(tensor, tensor)")
    cells = O.all_positions(shape)
    S, pv = O.sparse_direct(E, "s", shape, [cells[-1], cells[0]])
    E.eq(X.innerprod(S), O.ref_innerprod(c, O.sparse_ref(shape, pv)), "innerprod(tensor, sptensor)")
    K = O.kruskal(E, "k", shape, 2)
    E.eq(X.innerprod(K), O.ref_innerprod(c, O.den(K)), "innerprod(tensor, ktensor)")
    T = O.tucker(E, "t", shape, (1,) * N)
    E.eq(X.innerprod(T), O.ref_innerprod(c, O.den(T)), "innerprod(tensor, ttensor)")
    E.hint_sumsq(c)
    nrm = X.norm()
    E.eq(nrm * nrm, O.ref_sumsq(c), "norm^2 == sum of squares")
    E.true(nrm >= 0, "norm >= 0")
    for i1, i2 in itertools.permutations(range(N), 2):
        if shape[i1] == shape[i2]:
            got = X.contract(i1, i2)
            E.eq(got, O.ref_contract(c, i1, i2), f"contract({i1},{i2})")
    for sub in _subsets(N):
        E.eq(X.collapse(np.array(sub)), O.ref_collapse(c, sub), f"collapse(sum) dims={sub}")
    E.eq(X.collapse(), O.ref_collapse(c, range(N)), "collapse() all")
    for m in range(N):
        f = E.reals(f"f{m}_", (shape[m],))
        E.eq(X.scale(f, m).data, O.ref_scale(c, O.cells(f), [m]), f"scale mode {m}")
    if N >= 2:
        F = O.dense(E, "F", (shape[0], shape[N - 1]))
        E.eq(X.scale(F, np.array([0, N - 1])).data, O.ref_scale(c, O.cells(F.data), [0, N - 1]), "scale by a tensor along 2 modes")


# (2x2x2: all orderings of 8 values exhaust the path budget -- not registered)
@ob("C02", params=[dict(shape=(2, 2)), dict(shape=(3,))],
    bounds="dense collapse with np.max / np.min reducers: all orderings of the values by forks")
def dense_collapse_minmax(E, shape):
    """collapse with max/min reducers returns the max/min of each fibre"""
    X, c = _holders(E, shape)
    N = len(shape)
    for sub in _subsets(N):
        E.eq(X.collapse(np.array(sub), np.max), O.ref_collapse(c, sub, O.smax), f"collapse(max) dims={sub}")
    E.eq(X.collapse(fun=np.min), -O.smax([-v for v in c.ravel().tolist()]), "collapse(min) all")


# ----------------------------------------------------------------------------- sparse

def _sp3(shape, tier="quick", orders=None):
    cells = O.all_positions(shape)
    pos = (cells[1], cells[-1], cells[len(cells) // 2])
    out = []
    for order in (orders or list(itertools.permutations(range(3)))):
        out.append(dict(shape=shape, pos=pos, order=order, _tier=tier))
    return out


SP_PARAMS = _sp3((2, 3)) + _sp3((2, 3, 2), orders=[(0, 1, 2), (2, 1, 0), (1, 2, 0)]) + \
    _sp3((2, 3, 2), "thorough", orders=[(0, 2, 1), (1, 0, 2), (2, 0, 1)]) + _sp3((3, 2, 2), "thorough")


def _as_cells(r):
    if isinstance(r, (ttb.tensor, ttb.sptensor)):
        return O.den(r)
    return r


@ob("C02", params=SP_PARAMS, bounds="sparse nnz=3 symbolic non-zero values in every stored order; every subset of modes / order / exclude_dims; both sides of the 50%-fill switch by forks")
def sparse_ttv(E, shape, pos, order):
    """sptensor.ttv == definition whether the result comes back sparse, dense or scalar"""
    S, pv = O.sparse_direct(E, "x", shape, pos, order)
    c = O.sparse_ref(shape, pv)
    N = len(shape)
    vs = [E.reals(f"v{m}_", (shape[m],)) for m in range(N)]
    for sub in _subsets(N):
        ref = O.ref_ttv(c, {m: vs[m] for m in sub})
        for dims in list(itertools.permutations(sub))[:2]:
            got = S.ttv([vs[m] for m in dims], dims=np.array(dims))
            if isinstance(got, ttb.sptensor):
                O.wellformed(E, got, f"ttv dims={dims}")
            E.eq(_as_cells(got), ref, f"sparse ttv dims={dims}")
        excl = [m for m in range(N) if m not in sub]
        if excl:
            got = S.ttv(list(vs), exclude_dims=np.array(excl))
            E.eq(_as_cells(got), ref, f"sparse ttv exclude_dims={excl} (N vectors)")


def _ttm_params():
    out = []
    for p in SP_PARAMS:
        if p["order"] in ((0, 1, 2), (2, 1, 0)):
            for m in range(len(p["shape"])):
                out.append(dict(p, mode=m))
    return out


@ob("C02", params=_ttm_params(),
    bounds="sparse nnz=3, 2 stored orders; ttm in one mode, plain and transposed, matrix 2 x I_n with non-zero symbolic entries (zero-ness of result cells by forks)")
def sparse_ttm(E, shape, pos, order, mode):
    """sptensor.ttm equals the n-mode product"""
    S, pv = O.sparse_direct(E, "x", shape, pos, order)
    c = O.sparse_ref(shape, pv)
    M = E.reals("M", (2, shape[mode]), nonzero=True)
    got = S.ttm(M, mode)
    if isinstance(got, ttb.sptensor):
        O.wellformed(E, got, f"ttm mode {mode}")
    E.eq(_as_cells(got), O.ref_ttm(c, {mode: M}), f"sparse ttm mode {mode}")
    got = S.ttm(M.T.copy(), mode, transpose=True)
    E.eq(_as_cells(got), O.ref_ttm(c, {mode: M}), f"sparse ttm^T mode {mode}")


@ob("C02", params=[dict(shape=(2, 2), pos=((0, 1), (1, 0)), order=(1, 0)), dict(shape=(2, 2, 2), pos=((0, 1, 1), (1, 0, 0)), order=(1, 0), _tier="thorough")],
    bounds="sparse nnz=2; matrix lists over two modes / exclude_dims; matrices 1 x I_n unconstrained (zero entries by forks)")
def sparse_ttm_lists(E, shape, pos, order):
    """sptensor.ttm with matrix lists, dims in any order and exclude_dims"""
    S, pv = O.sparse_direct(E, "x", shape, pos, order)
    c = O.sparse_ref(shape, pv)
    N = len(shape)
    Ms = [E.reals(f"M{m}_", (1, shape[m])) for m in range(N)]
    got = S.ttm([Ms[N - 1], Ms[0]], dims=np.array([N - 1, 0]))
    E.eq(_as_cells(got), O.ref_ttm(c, {0: Ms[0], N - 1: Ms[N - 1]}), "sparse ttm two modes")
    got = S.ttm(list(Ms), exclude_dims=np.array([0]))
    E.eq(_as_cells(got), O.ref_ttm(c, {m: Ms[m] for m in range(1, N)}), "sparse ttm exclude_dims=[0]")


@ob("C02", params=[dict(p, n=n) for p in SP_PARAMS if p["order"] in ((0, 1, 2), (2, 1, 0)) for n in range(len(p["shape"]))],
    bounds="sparse nnz=3, 2 stored orders; one mode n per obligation; factor list and Kruskal operand (R=2, non-zero symbolic entries, symbolic weights)")
def sparse_mttkrp(E, shape, pos, order, n):
    """sptensor.mttkrp equals X_(n) KR(U_m), Kruskal weights applied"""
    S, pv = O.sparse_direct(E, "x", shape, pos, order)
    c = O.sparse_ref(shape, pv)
    U = [E.reals(f"kU{m}_", (s, 2), nonzero=True) for m, s in enumerate(shape)]
    w = E.reals("kw", (2,))
    K = ttb.ktensor(U, w, copy=False)
    E.eq(S.mttkrp(U, n), O.ref_mttkrp(c, U, n), f"sparse mttkrp(list,{n})")
    E.eq(S.mttkrp(K, n), O.ref_mttkrp(c, U, n, w), f"sparse mttkrp(ktensor,{n})")


@ob("C02", params=SP_PARAMS, bounds="sparse nnz=3 every stored order; partners dense / sparse (2 nnz, overlapping) / Kruskal / Tucker")
def sparse_scalar_ops(E, shape, pos, order):
    """sptensor innerprod, norm, contract, collapse, scale equal their index definitions"""
    S, pv = O.sparse_direct(E, "x", shape, pos, order)
    c = O.sparse_ref(shape, pv)
    N = len(shape)
    Y = O.dense(E, "y", shape)
    E.eq(S.innerprod(Y), O.ref_innerprod(c, O.cells(Y.data)), "innerprod(sptensor, tensor)")
    cells = O.all_positions(shape)
    S2, pv2 = O.sparse_direct(E, "z", shape, [pos[1], cells[0]], (1, 0))
    c2 = O.sparse_ref(shape, pv2)
    E.eq(S.innerprod(S2), O.ref_innerprod(c, c2), "innerprod(sptensor, sptensor)")
    E.eq(S2.innerprod(S), O.ref_innerprod(c, c2), "innerprod(sptensor, sptensor) swapped")
    K = O.kruskal(E, "k", shape, 2)
    E.eq(S.innerprod(K), O.ref_innerprod(c, O.den(K)), "innerprod(sptensor, ktensor)")
    T = O.tucker(E, "t", shape, (1,) * N)
    E.eq(S.innerprod(T), O.ref_innerprod(c, O.den(T)), "innerprod(sptensor, ttensor)")
    E.hint_sumsq(c)
    nrm = S.norm()
    E.eq(nrm * nrm, O.ref_sumsq(c), "norm^2")
    E.true(nrm >= 0, "norm >= 0")
    for i1, i2 in itertools.permutations(range(N), 2):
        if shape[i1] == shape[i2]:
            got = S.contract(i1, i2)
            if isinstance(got, ttb.sptensor):
                O.wellformed(E, got, "contract")
            E.eq(_as_cells(got), O.ref_contract(c, i1, i2), f"sparse contract({i1},{i2})")
    for sub in _subsets(N):
        got = S.collapse(np.array(sub))
        if isinstance(got, ttb.sptensor):
            O.wellformed(E, got, "collapse")
        E.eq(_as_cells(got), O.ref_collapse(c, sub), f"sparse collapse dims={sub}")
    E.eq(S.collapse(), O.ref_collapse(c, range(N)), "sparse collapse() all")
    for m in range(N):
        f = E.reals(f"f{m}_", (shape[m],))
        got = S.scale(f, m)
        E.eq(O.den(got), O.ref_scale(c, O.cells(f), [m]), f"sparse scale mode {m}")
    F = O.dense(E, "F", (shape[0], shape[N - 1]))
    E.eq(O.den(S.scale(F, np.array([0, N - 1]))), O.ref_scale(c, O.cells(F.data), [0, N - 1]), "sparse scale by a tensor")


# (2x3: 2^6 patterns times the result-pattern forks exhaust a 900 s budget -- not registered)
@ob("C02", params=[dict(shape=(2, 2)), dict(shape=(3,)), dict(shape=(2, 1, 2), _tier="thorough")],
    bounds="sparse obtained from a dense symbolic tensor: every sparsity pattern (incl. empty, single, full) by forks", max_paths=20000)
def sparse_patterns_products(E, shape):
    """ttv / ttm / innerprod / norm / collapse of to_sptensor(X) equal those of X for every sparsity pattern"""
    X = O.dense(E, "x", shape)
    c = O.cells(X.data)
    S = X.to_sptensor()
    N = len(shape)
    vs = [E.reals(f"v{m}_", (shape[m],)) for m in range(N)]
    for sub in _subsets(N):
        got = S.ttv([vs[m] for m in sub], dims=np.array(sub))
        if isinstance(got, ttb.sptensor):
            O.wellformed(E, got, f"ttv {sub}")
        E.eq(_as_cells(got), O.ref_ttv(c, {m: vs[m] for m in sub}), f"ttv dims={sub}")
    M = E.reals("M", (2, shape[0]))
    E.eq(_as_cells(S.ttm(M, 0)), O.ref_ttm(c, {0: M}), "ttm mode 0")
    Y = O.dense(E, "y", shape)
    E.eq(S.innerprod(Y), O.ref_innerprod(c, O.cells(Y.data)), "innerprod with dense")
    E.eq(S.innerprod(S), O.ref_sumsq(c), "innerprod with itself")
    E.hint_sumsq(c)
    nrm = S.norm()
    E.eq(nrm * nrm, O.ref_sumsq(c), "norm^2")
    E.eq(_as_cells(S.collapse(np.array([0]))), O.ref_collapse(c, [0]), "collapse mode 0")


# ----------------------------------------------------------------------------- Kruskal / Tucker / sum / tenmat

@ob("C02", params=[dict(shape=(2, 3), R=2), dict(shape=(2, 3, 2), R=2), dict(shape=(2, 2, 2), R=1, _tier="thorough"),
                   dict(shape=(3,), R=2)],
    bounds="Kruskal operand with symbolic weights and factors; every subset of modes for ttv; every n for mttkrp; partners of every kind")
def kruskal_products(E, shape, R):
    """ktensor ttv / mttkrp / innerprod / norm / mask equal the definitions applied to the array it denotes"""
    K = O.kruskal(E, "k", shape, R)
    c = O.den(K)
    N = len(shape)
    vs = [E.reals(f"v{m}_", (shape[m],)) for m in range(N)]
    for sub in _subsets(N):
        ref = O.ref_ttv(c, {m: vs[m] for m in sub})
        for dims in list(itertools.permutations(sub))[:2]:
            got = K.ttv([vs[m] for m in dims], dims=np.array(dims))
            E.eq(O.den(got) if isinstance(got, ttb.ktensor) else got, ref, f"ktensor ttv dims={dims}")
        excl = [m for m in range(N) if m not in sub]
        if excl:
            got = K.ttv(list(vs), exclude_dims=np.array(excl))
            E.eq(O.den(got) if isinstance(got, ttb.ktensor) else got, ref, f"ktensor ttv exclude_dims={excl}")
    if N >= 2:
        K2 = O.kruskal(E, "q", shape, 2)
        U = list(K2.factor_matrices)
        for n in range(N):
            E.eq(K.mttkrp(U, n), O.ref_mttkrp(c, U, n), f"ktensor mttkrp(list,{n})")
            E.eq(K.mttkrp(K2, n), O.ref_mttkrp(c, U, n, K2.weights), f"ktensor mttkrp(ktensor,{n})")
        E.eq(K.innerprod(K2), O.ref_innerprod(c, O.den(K2)), "innerprod(ktensor, ktensor)")
    Y = O.dense(E, "y", shape)
    E.eq(K.innerprod(Y), O.ref_innerprod(c, O.cells(Y.data)), "innerprod(ktensor, tensor)")
    cells = O.all_positions(shape)
    S, pv = O.sparse_direct(E, "s", shape, [cells[-1], cells[0]])
    E.eq(K.innerprod(S), O.ref_innerprod(c, O.sparse_ref(shape, pv)), "innerprod(ktensor, sptensor)")
    T = O.tucker(E, "t", shape, (1,) * N)
    E.eq(K.innerprod(T), O.ref_innerprod(c, O.den(T)), "innerprod(ktensor, ttensor)")
    E.hint_sumsq(c)
    nrm = K.norm()
    E.eq(nrm * nrm, O.ref_sumsq(c), "ktensor norm^2")
    E.true(nrm >= 0, "norm >= 0")
    W = ttb.sptensor(np.array([cells[-1], cells[0]]), np.ones((2, 1)), tuple(shape))
    mv = K.mask(W)
    E.eq(mv, [[c[cells[-1]]], [c[cells[0]]]] if False else np.array([[c[cells[-1]]], [c[cells[0]]]], dtype=object), "ktensor mask(sptensor)")


@ob("C02", params=[dict(shape=(2, 3), core=(2, 2)), dict(shape=(2, 3, 2), core=(2, 1, 2)), dict(shape=(2, 2, 2), core=(1, 2, 2), _tier="thorough")],
    bounds="Tucker operand with symbolic core and factors; every subset of modes for ttv/ttm; every n for mttkrp; partners of every kind")
def tucker_products(E, shape, core):
    """ttensor ttv / ttm / mttkrp / innerprod / norm / reconstruct equal the definitions applied to the array it denotes"""
    T = O.tucker(E, "t", shape, core)
    c = O.den(T)
    N = len(shape)
    vs = [E.reals(f"v{m}_", (shape[m],)) for m in range(N)]
    Ms = [E.reals(f"M{m}_", (2, shape[m])) for m in range(N)]
    for sub in _subsets(N):
        ref = O.ref_ttv(c, {m: vs[m] for m in sub})
        got = T.ttv([vs[m] for m in sub[::-1]], dims=np.array(sub[::-1]))
        E.eq(O.den(got) if isinstance(got, ttb.ttensor) else got, ref, f"ttensor ttv dims={sub[::-1]}")
        excl = [m for m in range(N) if m not in sub]
        if excl:
            got = T.ttv(list(vs), exclude_dims=np.array(excl))
            E.eq(O.den(got) if isinstance(got, ttb.ttensor) else got, ref, f"ttensor ttv exclude_dims={excl}")
        refm = O.ref_ttm(c, {m: Ms[m] for m in sub})
        got = T.ttm([Ms[m] for m in sub[::-1]], dims=np.array(sub[::-1]))
        E.eq(O.den(got), refm, f"ttensor ttm dims={sub[::-1]}")
        got = T.ttm([Ms[m].T.copy() for m in sub], dims=np.array(sub), transpose=True)
        E.eq(O.den(got), refm, f"ttensor ttm^T dims={sub}")
        if excl:
            got = T.ttm(list(Ms), exclude_dims=np.array(excl))
            E.eq(O.den(got), refm, f"ttensor ttm exclude_dims={excl}")
    K2 = O.kruskal(E, "q", shape, 2)
    U = list(K2.factor_matrices)
    for n in range(N):
        E.eq(T.mttkrp(U, n), O.ref_mttkrp(c, U, n), f"ttensor mttkrp(list,{n})")
        E.eq(T.mttkrp(K2, n), O.ref_mttkrp(c, U, n, K2.weights), f"ttensor mttkrp(ktensor,{n})")
    Y = O.dense(E, "y", shape)
    E.eq(T.innerprod(Y), O.ref_innerprod(c, O.cells(Y.data)), "innerprod(ttensor, tensor)")
    cells = O.all_positions(shape)
    S, pv = O.sparse_direct(E, "s", shape, [cells[-1], cells[0]])
    E.eq(T.innerprod(S), O.ref_innerprod(c, O.sparse_ref(shape, pv)), "innerprod(ttensor, sptensor)")
    E.eq(T.innerprod(K2), O.ref_innerprod(c, O.den(K2)), "innerprod(ttensor, ktensor)")
    T2 = O.tucker(E, "u", shape, (1,) * N)
    E.eq(T.innerprod(T2), O.ref_innerprod(c, O.den(T2)), "innerprod(ttensor, ttensor)")
    E.hint_sumsq(c)
    nrm = T.norm()
    E.eq(nrm * nrm, O.ref_sumsq(c), "ttensor norm^2")
    E.eq(T.reconstruct().data, c, "reconstruct() == full")
    got = T.reconstruct(samples=1, modes=0)
    E.eq(got.data, c[1:2], "reconstruct row 1 of mode 0")


# (2x3x2 sum tensor exhausts a 900 s budget -- not registered)
@ob("C02", params=[dict(shape=(2, 2))],
    bounds="sum of dense + sparse(2 nnz) + Kruskal(R=1) + Tucker parts, all symbolic")
def sum_products(E, shape):
    """sumtensor innerprod / mttkrp / ttv are linear over the parts"""
    N = len(shape)
    X = O.dense(E, "x", shape)
    cells = O.all_positions(shape)
    S, pv = O.sparse_direct(E, "s", shape, [cells[1], cells[-1]], (1, 0))
    K = O.kruskal(E, "k", shape, 1)
    T = O.tucker(E, "t", shape, (1,) * N)
    ST = ttb.sumtensor([X, S, K, T], copy=False)
    c = O.den(ST)
    Y = O.dense(E, "y", shape)
    E.eq(ST.innerprod(Y), O.ref_innerprod(c, O.cells(Y.data)), "sumtensor innerprod")
    K2 = O.kruskal(E, "q", shape, 2)
    U = list(K2.factor_matrices)
    for n in range(N):
        E.eq(ST.mttkrp(U, n), O.ref_mttkrp(c, U, n), f"sumtensor mttkrp(list,{n})")
        E.eq(ST.mttkrp(K2, n), O.ref_mttkrp(c, U, n, K2.weights), f"sumtensor mttkrp(ktensor,{n})")
    vs = [E.reals(f"v{m}_", (shape[m],)) for m in range(N)]
    for sub in _subsets(N):
        got = ST.ttv([vs[m] for m in sub], dims=np.array(sub))
        E.eq(O.den(got) if isinstance(got, ttb.sumtensor) else got, O.ref_ttv(c, {m: vs[m] for m in sub}), f"sumtensor ttv dims={sub}")


@ob("C02", params=[dict(sa=(2, 3), sb=(3, 2)), dict(sa=(2, 3, 2), sb=(2, 2))],
    bounds="tenmat x tenmat with compatible inner sizes, tenmat x scalar; symbolic data")
def tenmat_mul(E, sa, sb):
    """tenmat.__mul__ is the matrix product of the two matricizations"""
    A = O.dense(E, "a", sa)
    B = O.dense(E, "b", sb)
    Am = A.to_tenmat(rdims=np.arange(len(sa) - 1))
    Bm = B.to_tenmat(rdims=np.array([0]))
    if Am.shape[1] == Bm.shape[0]:
        C = Am * Bm
        a, b = O.cells(Am.data), O.cells(Bm.data)
        ref = O.zeros((a.shape[0], b.shape[1]))
        for i in range(a.shape[0]):
            for j in range(b.shape[1]):
                for k in range(a.shape[1]):
                    ref[i, j] = ref[i, j] + a[i, k] * b[k, j]
        E.eq(C.data if isinstance(C, ttb.tenmat) else C, ref, "tenmat * tenmat")
    s = E.real("s")
    E.eq((Am * s).data, O.cells(Am.data) * s, "tenmat * scalar")
    E.eq((s * Am).data, O.cells(Am.data) * s, "scalar * tenmat")
