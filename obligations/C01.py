"""C01 -- conversions between representations preserve the tensor."""
import itertools

import numpy as np
import pyttb as ttb
from symx.runner import ob
from symx import oracles as O

SH_Q = [(3,), (1, 3), (2, 2), (2, 3), (2, 1, 2), (1, 2, 3)]
SH_T = [(2, 2, 2), (2, 4), (1, 2, 1, 3), (2, 1, 2, 2)]


def _p(shapes_q, shapes_t):
    return [dict(shape=s) for s in shapes_q] + [dict(shape=s, _tier="thorough") for s in shapes_t]


@ob("C01", params=_p(SH_Q, SH_T), bounds="all values / all sparsity patterns (forks) of a dense tensor of the shape")
def dense_sparse_dense(E, shape):
    """tensor -> to_sptensor -> full/double/to_tensor is the identity; nnz and shape consistent"""
    X = O.dense(E, "x", shape)
    ref = O.cells(X.data)
    S = X.to_sptensor()
    O.wellformed(E, S, "to_sptensor")
    E.true(S.shape == tuple(shape), "shape")
    E.eq(O.den(S), ref, "den(to_sptensor(X)) == X")
    nz = O.count_nonzero_cells(ref)
    E.true(S.nnz == nz, "nnz equals number of non-zero cells")
    E.true(X.nnz == nz, "tensor.nnz")
    subs, vals = X.find()
    E.true(subs.shape[0] == nz and vals.shape[0] == nz, "find() count")
    for r in range(subs.shape[0]):
        E.eq(vals[r, 0], ref[tuple(int(v) for v in subs[r])], "find() pairs")
    F = S.full()
    E.true(isinstance(F, ttb.tensor) and F.shape == tuple(shape), "full() type/shape")
    E.eq(F.data, ref, "full(to_sptensor(X)) == X")
    E.eq(S.double(), ref, "double(to_sptensor(X)) == X")
    E.eq(S.to_tensor().data, ref, "to_tensor")
    E.eq(X.double(), ref, "tensor.double")
    E.eq(X.full().data, ref, "tensor.full")


def _sp_cfgs():
    out = []
    for shape, npos, tier in [((2, 3), 2, "quick"), ((2, 3), 3, "quick"), ((3, 2, 2), 3, "quick"), ((4,), 2, "quick"),
                              ((2, 2, 2), 4, "thorough"), ((1, 3, 2), 3, "thorough")]:
        cells = O.all_positions(shape)
        # positions: include first and last cell, spread the rest
        pos = [cells[0], cells[-1]] + [cells[(len(cells) * (i + 1)) // (npos)] for i in range(npos - 2)]
        pos = list(dict.fromkeys(pos))[:npos]
        for order in itertools.permutations(range(len(pos))):
            out.append(dict(shape=shape, pos=tuple(pos), order=order, _tier=tier))
    return out


def _sp_body(E, shape, pos, order, splits):
    S, pv = O.sparse_direct(E, "v", shape, pos, order)
    ref = O.sparse_ref(shape, pv)
    E.eq(S.full().data, ref, "full")
    E.eq(S.double(), ref, "double")
    E.true(S.nnz == len(pos), "nnz")
    N = len(shape)
    for rd, cd in splits:
        M = S.to_sptenmat(np.array(rd, dtype=int), np.array(cd, dtype=int))
        O.wellformed(E, M, f"to_sptenmat{rd}{cd}")
        E.true(M.tshape == tuple(shape), "tshape")
        E.true(tuple(M.rdims) == tuple(rd) and tuple(M.cdims) == tuple(cd), "mode split reported")
        E.true(M.nnz == len(pos), "sptenmat nnz")
        E.eq(O.den(M), ref, f"den(to_sptenmat{rd}{cd})")
        E.eq(M.full().data, O.ref_tenmat(ref, rd, cd), "sptenmat.full matrix")
        E.eq(O.den(M.full()), ref, "den(sptenmat.full)")
        ok, back = E.call(lambda: M.to_sptensor(), f"sptenmat.to_sptensor r={rd} c={cd}")
        if ok:
            O.wellformed(E, back, "to_sptensor(sptenmat)")
            E.eq(O.den(back), ref, "sptenmat -> sptensor")
        D = M.double()
        E.eq(D.toarray(), O.ref_tenmat(ref, rd, cd), "sptenmat.double (scipy)")
        M2 = ttb.sptenmat.from_array(D, np.array(rd, dtype=int), np.array(cd, dtype=int), tuple(shape))
        E.eq(O.den(M2), ref, "sptenmat.from_array(double)")
    if N == 2:
        E.eq(S.spmatrix().toarray(), ref, "spmatrix")


@ob("C01", params=_sp_cfgs(), bounds="sparse built directly: nnz<=3 (T:4) symbolic non-zero values, every stored order; both sides non-empty")
def sparse_conversions(E, shape, pos, order):
    """sptensor -> full / double / to_sptenmat -> to_sptensor / spmatrix preserve the array"""
    N = len(shape)
    splits = []
    if N >= 2:
        splits += [((0,), tuple(range(1, N))), (tuple(range(1, N))[::-1], (0,)), ((N - 1,), tuple(range(N - 1)))]
    if N >= 3:
        splits += [((2, 0), (1,)), ((1,), (2, 0))]
    _sp_body(E, shape, pos, order, splits)


@ob("C01", params=[p for p in _sp_cfgs() if p["order"] == tuple(range(len(p["pos"])))[::-1]],
    bounds="as sparse_conversions, with all modes on one side (the other side empty)")
def sparse_conversions_emptyside(E, shape, pos, order):
    """sptensor <-> sptenmat when either the row or the column mode set is empty"""
    N = len(shape)
    _sp_body(E, shape, pos, order, [(tuple(range(N)), ()), ((), tuple(range(N)))])


@ob("C01", params=[dict(shape=(3,), R=1), dict(shape=(3,), R=2), dict(shape=(2, 3), R=1), dict(shape=(2, 3), R=2),
                   dict(shape=(2, 2, 2), R=2), dict(shape=(2, 3, 4), R=2), dict(shape=(2, 2, 3, 2), R=2), dict(shape=(3, 2, 2), R=1),
                   dict(shape=(2, 3, 2), R=2, _tier="thorough"), dict(shape=(2, 1, 2, 2), R=2, _tier="thorough"),
                   dict(shape=(2, 2, 2, 2, 2), R=1, _tier="thorough"), dict(shape=(4, 3, 2), R=2, _tier="thorough")],
    bounds="Kruskal weights and factors symbolic")
def kruskal_to_dense(E, shape, R):
    """ktensor.full/double/to_tenmat == sum_r w_r prod_n U_n[i_n,r]"""
    K = O.kruskal(E, "k", shape, R)
    ref = O.den_kruskal(K.weights, K.factor_matrices)
    ok, F = E.call(lambda: K.full(), "ktensor.full()")
    if ok:
        E.true(F.shape == tuple(shape), "shape")
        E.eq(F.data, ref, "ktensor.full")
        E.eq(K.double(), ref, "ktensor.double")
        N = len(shape)
        M = K.to_tenmat(np.array([0]), np.arange(1, N)) if N > 1 else K.to_tenmat(np.array([0]))
        E.eq(O.den(M), ref, "ktensor.to_tenmat")


@ob("C01", params=[dict(shape=(2, 3), core=(2, 2)), dict(shape=(2, 3), core=(1, 2)), dict(shape=(2, 2, 2), core=(2, 1, 2)),
                   dict(shape=(3,), core=(2,)), dict(shape=(2, 3, 4), core=(2, 1, 2)), dict(shape=(2, 3, 2), core=(2, 2, 2), _tier="thorough"),
                   dict(shape=(2, 2, 3, 2), core=(1, 2, 1, 2), _tier="thorough")],
    bounds="Tucker core and factors symbolic")
def tucker_to_dense(E, shape, core):
    """ttensor.full/double == core x_n U_n"""
    T = O.tucker(E, "t", shape, core)
    ref = O.den(T)
    E.eq(T.full().data, ref, "ttensor.full")
    E.eq(T.double(), ref, "ttensor.double")
    E.true(T.shape == tuple(shape), "shape")


@ob("C01", params=[dict(shape=(2, 2)), dict(shape=(2, 3), _tier="thorough")],
    bounds="sum of a dense, a sparse (2 nnz), a Kruskal (R=1) and a Tucker part, all symbolic")
def sum_to_dense(E, shape):
    """sumtensor.full/double == sum of the parts"""
    X = O.dense(E, "x", shape)
    cells = O.all_positions(shape)
    S, pv = O.sparse_direct(E, "s", shape, [cells[1], cells[-1]], (1, 0))
    K = O.kruskal(E, "k", shape, 1)
    T = O.tucker(E, "t", shape, (1,) * len(shape))
    for parts in ([X, S, K, T], [S, X], [K, S], [T, K, X]):
        ST = ttb.sumtensor(parts, copy=False)
        ref = None
        for p in parts:
            d = O.den(p)
            ref = d if ref is None else ref + d
        E.eq(ST.full().data, ref, f"sumtensor.full {len(parts)} parts")
        E.eq(ST.double(), ref, "sumtensor.double")


def _splits(N):
    out = []
    modes = list(range(N))
    for k in range(N + 1):
        for rd in itertools.permutations(modes, k):
            rest = [m for m in modes if m not in rd]
            for cd in itertools.permutations(rest):
                out.append((rd, cd))
    return out


@ob("C01", params=[dict(shape=(2, 3)), dict(shape=(2, 3, 4)), dict(shape=(3, 1, 2)), dict(shape=(5,)),
                   dict(shape=(2, 3, 2, 2), _tier="thorough")],
    bounds="every ordered partition of the modes into (rdims, cdims), either side empty; data symbolic")
def tensor_tenmat_roundtrip(E, shape):
    """tensor.to_tenmat(rdims, cdims) has cell (i,j) = tensor cell by 'first listed mode fastest'; back is identity"""
    X = O.dense(E, "x", shape)
    ref = O.cells(X.data)
    N = len(shape)
    splits = _splits(N)
    if N == 4:
        import random
        rng = random.Random(E.seed)
        splits = rng.sample(splits, 60)
    for rd, cd in splits:
        kw = {}
        M = X.to_tenmat(rdims=np.array(rd, dtype=int), cdims=np.array(cd, dtype=int))
        E.true(M.tshape == tuple(shape), "tshape")
        E.true(tuple(M.rindices) == tuple(rd) and tuple(M.cindices) == tuple(cd), "mode split reported")
        E.eq(M.data, O.ref_tenmat(ref, rd, cd), f"to_tenmat r={rd} c={cd}")
        E.eq(M.double(), O.ref_tenmat(ref, rd, cd), "tenmat.double")
        B = M.to_tensor()
        E.eq(B.data, ref, f"to_tensor(to_tenmat) r={rd} c={cd}")
        # constructing a tenmat from the matrix + split directly
        M2 = ttb.tenmat(M.data, np.array(rd, dtype=int), np.array(cd, dtype=int), tuple(shape))
        E.eq(O.den(M2), ref, "tenmat constructor")
    # only rdims / only cdims given, and the cyclic conventions
    for n in range(N):
        rest = [m for m in range(N) if m != n]
        M = X.to_tenmat(rdims=np.array([n]))
        E.eq(M.data, O.ref_tenmat(ref, (n,), rest), f"rdims=[{n}] only")
        M = X.to_tenmat(cdims=np.array([n]))
        E.eq(M.data, O.ref_tenmat(ref, rest, (n,)), f"cdims=[{n}] only")
        fc = [(n + 1 + i) % N for i in range(N - 1)]
        M = X.to_tenmat(rdims=np.array([n]), cdims_cyclic="fc")
        E.eq(M.data, O.ref_tenmat(ref, (n,), fc), f"fc n={n}")
        E.eq(M.to_tensor().data, ref, f"fc back n={n}")
        bc = [(n - 1 - i) % N for i in range(N - 1)]
        M = X.to_tenmat(rdims=np.array([n]), cdims_cyclic="bc")
        E.eq(M.data, O.ref_tenmat(ref, (n,), bc), f"bc n={n}")
        E.eq(M.to_tensor().data, ref, f"bc back n={n}")
        M = X.to_tenmat(cdims=np.array([n]), cdims_cyclic="t")
        E.eq(O.den(M), ref, f"t n={n}")
