"""C13 -- GCP solvers keep the best model, respect bounds, sample validly and are reusable.

The stochastic solve loop runs with `estimate` replaced by a stub: every objective estimate is a fresh symbolic value
tagged with a snapshot of the model it was asked about, every gradient estimate a fresh symbolic array.  The loop's
control flow (failed epochs, rollback, stopping) is then decided by z3 for all objective / gradient values."""
import itertools
import types

import numpy as np
import pyttb as ttb
from pyttb.gcp import optimizers as opt
from pyttb.gcp import samplers as smp
from symx.runner import ob
from symx import oracles as O
from symx import harness as H


class _Sampler:
    crng = None

    def function_sample(self, data):
        return "fsubs", "fvals", "fwgts"

    def gradient_sample(self, data):
        return "gsubs", "gvals", "gwgts"


class _EstStub:
    """stand-in for pyttb.gcp.fg_est.estimate inside the optimizers module"""

    def __init__(self, E, shape, R, tag):
        self.E, self.shape, self.R, self.tag = E, shape, R, tag
        self.f = []  # (snapshot of factor cells, value)
        self.g = []
        self.nf = self.ng = 0

    def __call__(self, model, subs, vals, wgts, function_handle=None, gradient_handle=None, lambda_check=True, crng=None):
        E = self.E
        if function_handle is not None and gradient_handle is None:
            v = E.real(f"{self.tag}f{self.nf}")
            self.nf += 1
            self.f.append(([O.cells(np.asarray(f)) for f in model.factor_matrices], v))
            return v
        gs = [E.reals(f"{self.tag}g{self.ng}_{n}_", (s, self.R)) for n, s in enumerate(self.shape)]
        self.ng += 1
        self.g.append(gs)
        return gs


def _solve(E, solver, shape, R, lb, tag, init=None):
    est = _EstStub(E, shape, R, tag)
    real = opt.estimate
    opt.estimate = est
    try:
        K0 = init if init is not None else ttb.ktensor([E.reals(f"{tag}U{n}_", (s, R)) for n, s in enumerate(shape)], E.const(np.ones(R)), copy=False)
        snap = [O.cells(f) for f in K0.factor_matrices]
        model, info = solver.solve(K0, "data", "fh", "gh", lower_bound=lb, sampler=_Sampler())
    finally:
        opt.estimate = real
    return K0, snap, model, info, est


def _mk(kind, **kw):
    cls = {"sgd": opt.SGD, "adam": opt.Adam, "adagrad": opt.Adagrad}[kind]
    return cls(printitn=0, **kw)


def _loop_params():
    out = []
    for k in ("sgd", "adam", "adagrad"):
        for mi, mf in ((1, 0), (2, 0), (2, 1), (3, 1)):
            for lb in ("neginf", "zero"):
                if (mi == 3 and lb == "zero") or (k == "adam" and lb == "zero" and mi > 1):
                    continue
                d = dict(kind=k, max_iters=mi, max_fails=mf, lb=lb)
                if k == "adagrad" and lb == "zero" and (mi, mf) == (2, 1):
                    d["_tier"] = "thorough"  # 2600 paths, 2.5 min on its own
                out.append(d)
    return out


@ob("C13", params=_loop_params(),
    max_paths=20000, wall_s=600, validate=False,
    bounds="2x2 rank-1 model with symbolic factors; epochs of one iteration; max_iters <= 3, max_fails in {0,1}; objective estimates and gradients are fresh symbols (stubbed estimator); lower bound -inf or 0")
def solve_loop(E, kind, max_iters, max_fails, lb):
    """the returned model is the best one seen at an epoch boundary: its tagged objective is the minimum of start + epoch values, never worse than the start; trace and bounds"""
    shape, R = (2, 2), 1
    lower = -np.inf if lb == "neginf" else 0.0
    solver = _mk(kind, rate=0.5, decay=0.5, max_fails=max_fails, epoch_iters=1, max_iters=max_iters)
    K0, snap, model, info, est = _solve(E, solver, shape, R, lower, "a")
    vals = [v for _, v in est.f]
    E.true(len(vals) >= 2, "the objective is estimated at the start and after each epoch")
    # expected control flow recomputed from the recorded estimates
    best, fprev, nfails, done = 0, vals[0], 0, 0
    for k in range(1, len(vals)):
        done = k
        if vals[k] > fprev:
            nfails += 1
        else:
            best, fprev = k, vals[k]
        if nfails > max_fails:
            break
    E.true(done == len(vals) - 1, "no epoch runs after the failure limit is exceeded", f"{len(vals) - 1} epochs, limit reached after {done}")
    E.true(len(vals) - 1 <= max_iters, "the epoch limit is respected")
    for n in range(len(shape)):
        E.eq(model.factor_matrices[n], est.f[best][0][n], "the returned model is the best model seen at an epoch boundary")
    for v in vals:
        E.true(vals[best] <= v, "its objective is the smallest value seen")
    E.true(vals[best] <= vals[0], "never worse than the starting guess")
    tr = np.asarray(info["f_est_trace"]).ravel().tolist()
    E.true(len(tr) == len(vals), "trace: the starting value plus one value per completed epoch", f"{len(tr)} entries for {len(vals) - 1} epoch(s)")
    for a, b in zip(tr, vals):
        E.eq(a, b, "trace entries are the estimates in order")
    if lb == "zero":
        for n in range(len(shape)):
            for st in est.f[1:]:
                for v in st[0][n].ravel().tolist():
                    E.true(v >= 0, "every updated factor entry respects the lower bound")
    for n in range(len(shape)):
        E.eq(K0.factor_matrices[n], snap[n], "caller's initial model unchanged")


@ob("C13", params=[dict(kind=k, first=f) for k in ("sgd", "adam", "adagrad") for f in ("ok", "failed")], max_paths=20000, wall_s=600, validate=False,
    bounds="two consecutive solves on one optimizer object vs the second solve on a fresh object, same stubbed estimates (symbolic); first solve with a successful or a failed epoch")
def reuse(E, kind, first):
    """a solver object can be reused: the second solve depends only on its own arguments and estimates"""
    shape, R = (2, 2), 1
    kw = dict(rate=0.5, decay=0.5, max_fails=0, epoch_iters=1, max_iters=1)
    used = _mk(kind, **kw)
    _, _, m1, i1, e1 = _solve(E, used, shape, R, -np.inf, "p")
    v = [x for _, x in e1.f]
    E.assume((v[1] <= v[0]) if first == "ok" else (v[1] > v[0]))
    K2, _, m2, i2, e2 = _solve(E, used, shape, R, -np.inf, "q")
    fresh = _mk(kind, **kw)
    K3 = ttb.ktensor([f.copy() for f in K2.factor_matrices], E.const(np.ones(R)), copy=False)
    _, _, m3, i3, e3 = _solve(E, fresh, shape, R, -np.inf, "q", init=K3)
    for n in range(len(shape)):
        E.eq(m2.factor_matrices[n], m3.factor_matrices[n], "second solve on a used object == the same solve on a fresh object")
        for (sa, _), (sb, _) in zip(e2.f, e3.f):
            E.eq(sa[n], sb[n], "every intermediate model of the second solve is the same")


# ------------------------------------------------------------------------------------------ samplers

def _sp(E):
    S, pv = O.sparse_direct(E, "x", (2, 2), [(0, 1), (1, 0)])
    return S, O.sparse_ref((2, 2), pv)


def _judge_samples(E, subs, vals, wgts, ref, shape, label, total=None, zeros_from=None, check_inside=True):
    subs = np.asarray(subs)
    n = subs.shape[0]
    E.true(np.asarray(vals).reshape(-1).shape[0] == n and np.asarray(wgts).reshape(-1).shape[0] == n, f"{label}: one value and one weight per sample")
    rows = [[int(v) for v in r] for r in subs.tolist()]
    for k, r in enumerate(rows):
        inside = all(0 <= r[d] < shape[d] for d in range(len(shape)))
        if check_inside:
            E.true(inside, f"{label}: subscripts inside the tensor", f"{r}")
        if inside:
            E.eq(np.asarray(vals).reshape(-1)[k], ref[tuple(r)], f"{label}: value equals the data at the subscript")
            if zeros_from is not None and k >= zeros_from:
                E.true(not (ref[tuple(r)] != 0), f"{label}: an entry returned as a zero is a true zero")
    if total is not None:
        s = 0.0
        for w in np.asarray(wgts).reshape(-1).tolist():
            s = s + w
        E.eq(s, total, f"{label}: weights total the number of entries the sample stands for")


@ob("C13", params=[dict(samples=1), dict(samples=2)], max_paths=20000,
    bounds="uniform sampler on a dense 2x2 symbolic tensor; every uniform draw a symbolic real in [0,1) (solver enumerates the resulting subscripts, boundary draw u = 0 included)")
def sampler_uniform(E, samples):
    """uniform sampler: subscripts inside the tensor, values are the data there, weights total the tensor size"""
    X = O.dense(E, "x", (2, 2))
    ref = O.cells(X.data)
    with H.rng(E):
        subs, vals, wgts = smp.uniform(X, samples)
    _judge_samples(E, subs, vals, wgts, ref, (2, 2), "uniform", total=4.0)


# (two zero samples: the rejection loop's draw outcomes exhaust the 40000-path budget -- not registered)
@ob("C13", params=[dict(nz=1, z=1), dict(nz=2, z=1)], max_paths=40000,
    bounds="stratified / semi-stratified samplers on a 2x2 sparse tensor with 2 stored symbolic values; index and uniform draws symbolic")
def sampler_stratified(E, nz, z):
    """stratified: nonzero samples are stored entries, zero samples are true zeros, weights total the entries represented; semi-stratified: inside, counts, weights"""
    S, ref = _sp(E)
    nzidx = np.sort(np.asarray(ttb.tt_sub2ind((2, 2), S.subs)) if hasattr(ttb, "tt_sub2ind") else np.array([1, 2]))
    with H.rng(E):
        subs, vals, wgts = smp.stratified(S, nzidx, nz, z)
    E.true(np.asarray(subs).shape[0] <= nz + z, "stratified: at most the requested number of samples")
    _judge_samples(E, subs[:nz], np.asarray(vals).reshape(-1)[:nz], np.asarray(wgts).reshape(-1)[:nz], ref, (2, 2), "stratified nonzeros", total=2.0)
    got_z = np.asarray(subs).shape[0] - nz
    if got_z == z:
        _judge_samples(E, subs[nz:], np.asarray(vals).reshape(-1)[nz:nz + got_z], np.asarray(wgts).reshape(-1)[nz:nz + got_z], ref, (2, 2), "stratified zeros", total=2.0, zeros_from=0)
    with H.rng(E, prefix="r2"):
        subs, vals, wgts = smp.semistrat(S, nz, z)
    E.true(np.asarray(subs).shape[0] == nz + z, "semistrat: requested number of samples")
    _judge_samples(E, subs[:nz], np.asarray(vals).reshape(-1)[:nz], np.asarray(wgts).reshape(-1)[:nz], ref, (2, 2), "semistrat nonzeros", total=2.0)
    rows = [[int(v) for v in r] for r in np.asarray(subs)[nz:].tolist()]
    for r in rows:
        E.true(all(0 <= r[d] < 2 for d in range(2)), "semistrat zero draws: subscripts inside the tensor", f"{r}")
    w = np.asarray(wgts).reshape(-1)[nz:].tolist()
    tot = 0.0
    for x in w:
        tot = tot + x
    E.eq(tot, 4.0, "semistrat zero draws: weights total the tensor size")


@ob("C13", params=[dict(size=s, nnz=n) for s, n in ((4, 2), (20, 3), (1000, 10), (6, 0))], validate=True,
    bounds="default sample counts of GCPSampler for a catalogue of tensor sizes / nonzero counts (pure integer arithmetic)")
def sampler_defaults(E, size, nnz):
    """default sampler configuration: requested counts never exceed what is available"""
    shape = (size, 1)
    subs = np.array([[i, 0] for i in range(min(nnz, 50))]) if nnz else np.empty((0, 2), dtype=int)
    if nnz > 50:
        return  # large synthetic case checked through the formulas only
    S = ttb.sptensor(subs, E.const(np.ones((subs.shape[0], 1))), shape) if nnz else ttb.sptensor(shape=shape)
    gs = smp.GCPSampler(S, max_iters=10)
    f = gs._fsampler.keywords
    E.true(f["num_nonzeros"] <= max(nnz, 0) and f["num_zeros"] <= size - nnz, "default function sample counts within the available entries", f"{f['num_nonzeros']}, {f['num_zeros']}")
    g = gs._gsampler.keywords
    E.true(g["num_nonzeros"] <= max(nnz, 0) and g["num_zeros"] <= size - nnz, "default gradient sample counts within the available entries")
    D = ttb.tensor(E.const(np.ones(shape)))
    gd = smp.GCPSampler(D, max_iters=10)
    E.true(gd._fsampler.keywords["samples"] <= size, "dense default function samples <= tensor size")


class _LbfgsStub:
    """stand-in for scipy.optimize.fmin_l_bfgs_b: evaluates the callback once at x0, returns an arbitrary
    (symbolic) point within the bounds; records everything it was handed"""

    def __init__(self, E, tag):
        self.E, self.tag = E, tag
        self.calls = []

    def __call__(self, func, x0, fprime=None, approx_grad=False, bounds=None, **kw):
        E = self.E
        f0, g0 = func(np.asarray(x0).copy() if not E.sym else x0.copy())
        c = len(self.calls)
        xs = []
        for i, (lo, hi) in enumerate(bounds):
            v = E.real(f"{self.tag}x{c}_{i}")
            if lo != -np.inf:
                E.assume(v >= lo)
            xs.append(v)
        from symx import npenv
        xf = npenv.obj_array(xs) if E.sym else np.array(xs, dtype=float)
        self.calls.append(dict(x0=O.cells(np.asarray(x0)), bounds=list(bounds), kw=dict(kw), f0=f0, g0=O.cells(np.asarray(g0)), xf=xf))
        if kw.get("callback") is not None:
            kw["callback"](xf)
        return xf, E.real(f"{self.tag}ff{c}"), {"warnflag": 0, "nit": 1}


@ob("C13", params=[dict(lb=lb) for lb in ("neginf", "zero")], validate=False,
    bounds="LBFGSB wrapper with scipy's fmin_l_bfgs_b replaced by an opaque stub (arbitrary symbolic result within the bounds); 2x2 rank-1 model, Gaussian loss, symbolic data and start; two solves on one object (2x2 then 2x3 data) vs a fresh object")
def lbfgsb_wrapper(E, lb):
    """L-BFGS-B wrapper: start vector, bounds, objective / gradient callback, model rebuilt from the returned vector, caller's model untouched, solver object reusable"""
    from pyttb.gcp import handles
    lower = -np.inf if lb == "neginf" else 0.0
    real = opt.fmin_l_bfgs_b

    def run(solver, shape, tag):
        stub = _LbfgsStub(E, tag)
        opt.fmin_l_bfgs_b = stub
        try:
            X = O.dense(E, f"{tag}d", shape)
            K0 = ttb.ktensor([E.reals(f"{tag}U{n}_", (s, 1)) for n, s in enumerate(shape)], E.const(np.ones(1)), copy=False)
            snap = [O.cells(f) for f in K0.factor_matrices]
            model, info = solver.solve(K0, X, handles.gaussian, handles.gaussian_grad, lower_bound=lower)
        finally:
            opt.fmin_l_bfgs_b = real
        return X, K0, snap, model, info, stub

    solver = opt.LBFGSB(maxiter=3)
    X, K0, snap, model, info, stub = run(solver, (2, 2), "a")
    E.true(len(stub.calls) == 1, "one call of the underlying optimiser")
    call = stub.calls[0]
    x0 = [v for f in snap for v in f.reshape(-1, order="F").tolist()]
    E.eq(call["x0"], x0, "start vector: the factor matrices of the initial model, column by column")
    E.true(all(b == (lower, np.inf) for b in call["bounds"]) and len(call["bounds"]) == len(x0), "one (lower bound, inf) pair per variable")
    # objective / gradient callback at x0 == exact evaluation of the Gaussian loss
    m0 = O.den_kruskal([1.0], snap)
    xc = O.cells(X.data)
    f_ref = 0.0
    for i in np.ndindex(2, 2):
        f_ref = f_ref + (m0[i] - xc[i]) * (m0[i] - xc[i])
    E.eq(call["f0"], f_ref, "callback objective == sum of the loss over all entries")
    g_ref = O.zeros((2, 2))
    for i in np.ndindex(2, 2):
        g_ref[i] = 2 * (m0[i] - xc[i])
    gvec = [v for n in range(2) for v in O.ref_mttkrp(g_ref, snap, n).reshape(-1, order="F").tolist()]
    E.eq(call["g0"], gvec, "callback gradient == MTTKRP of the loss derivative, vectorised like the model")
    xf = np.asarray(call["xf"]).tolist()
    got = [v for f in model.factor_matrices for v in np.asarray(f).reshape(-1, order="F").tolist()]
    E.eq(got, xf, "returned model is rebuilt from the vector the optimiser returned")
    if lb == "zero":
        for v in got:
            E.true(v >= 0, "returned factor entries respect the lower bound")
    for n in range(2):
        E.eq(K0.factor_matrices[n], snap[n], "caller's initial model unchanged")
    E.true(solver._solver_kwargs.get("callback") is None, "the user's callback slot is restored after the solve")
    # reuse on a problem of another size vs a fresh object: same settings handed to the optimiser
    _, _, _, _, _, s2 = run(solver, (2, 3), "b")
    _, _, _, _, _, s3 = run(opt.LBFGSB(maxiter=3), (2, 3), "b")
    k2 = {k: v for k, v in s2.calls[0]["kw"].items() if k != "callback"}
    k3 = {k: v for k, v in s3.calls[0]["kw"].items() if k != "callback"}
    E.true(k2 == k3, "second solve on a used object hands the optimiser the same settings as a fresh object", f"{k2} vs {k3}")
