"""C14 -- leading mode-n vectors: what pyttb does around the eigen-solver (contract stub).

Checked: the matrix handed to the solver is the mode-n Gram matrix of the array the object denotes; the solver
switch (iterative with k = r when r < size-1, dense otherwise); the returned columns are eigenvector *columns* of the
r eigenvalues largest in magnitude, in decreasing order; with flipsign the entry of largest magnitude is >= 0."""
import itertools

import numpy as np
import pyttb as ttb
from symx.runner import ob
from symx import oracles as O
from symx import harness as H


def gram(c, n):
    """X_(n) X_(n)^T from the cells"""
    I = c.shape[n]
    out = O.zeros((I, I))
    for i in np.ndindex(*c.shape):
        for a in range(I):
            j = list(i)
            j[n] = a
            out[i[n], a] = out[i[n], a] + c[i] * c[tuple(j)]
    return out


def _abs(x):
    return x if (x >= 0) else -x


def judge(E, X, c, n, r, flipsign, label):
    size = c.shape[n]
    with H.eig(E) as st:
        V = X.nvecs(n, r, flipsign=flipsign)
    E.true(len(st.calls) == 1, f"{label}: exactly one eigen-solver call", f"{len(st.calls)}")
    if len(st.calls) != 1:
        return
    call = st.calls[0]
    E.eq(call["A"], gram(c, n), f"{label}: matrix handed to the eigen-solver is the mode-{n} Gram matrix")
    iterative = r < size - 1
    E.true((call["kind"] in ("eigsh", "eigs")) == iterative, f"{label}: solver switch (iterative iff r < size-1)", call["kind"])
    if iterative:
        E.true(call["k"] == r, f"{label}: iterative solver asked for r pairs", f"k={call['k']}")
    V = np.asarray(V)
    E.true(V.shape == (size, r), f"{label}: result is size x r", f"{V.shape}")
    if V.shape != (size, r):
        return
    # expected column order: decreasing |w| (ties excluded by the stub's contract)
    w = call["w"]
    order = sorted(range(len(w)), key=lambda j: _Key(w[j]))
    for col in range(r):
        src = call["V"][:, order[col]]
        got = V[:, col]
        if not flipsign:
            E.eq(got, src, f"{label}: column {col} is the eigenvector column of the {col + 1}-th largest |eigenvalue|")
        else:
            # big = index of the largest-magnitude entry (first one on ties, as argmax does)
            big = 0
            for i in range(1, size):
                if (_abs(src[i]) > _abs(src[big])):
                    big = i
            neg = (src[big] < 0)
            E.eq(got, -src if neg else src, f"{label}: column {col} is +/- the eigenvector column, largest entry made non-negative")
            E.true(got[big] >= 0, f"{label}: entry of largest magnitude is non-negative")


class _Key:
    """sort key: larger |w| first"""
    def __init__(self, w):
        self.w = _abs(w)

    def __lt__(self, o):
        return bool(self.w > o.w)


def _params(shapes):
    out = []
    for shape, tier in shapes:
        for n in range(len(shape)):
            for r in range(1, shape[n] + 1):
                for fs in (False, True):
                    if fs and shape[n] * r > 4:
                        continue  # the sign rule forks on every entry: size <= 3 only
                    out.append(dict(shape=shape, n=n, r=r, flipsign=fs, _tier=tier))
    return out


@ob("C14", params=_params([((2, 3), "quick"), ((4, 2), "quick"), ((3, 2, 2), "thorough"), ((2, 3, 2), "thorough")]), max_paths=20000, validate=False, env_stub=True,
    bounds="dense tensor with symbolic entries; every mode n and count 1 <= r <= size (both solver paths); eigen-solver = contract stub with symbolic well separated eigenvalues")
def dense_nvecs(E, shape, n, r, flipsign):
    """tensor.nvecs: Gram matrix, solver switch, column selection / order, sign rule"""
    X = O.dense(E, "x", shape)
    judge(E, X, O.cells(X.data), n, r, flipsign, "tensor.nvecs")


def _sp_params():
    out = []
    for shape, tier in [((2, 3), "quick"), ((3, 2), "quick"), ((4, 2), "thorough"), ((3, 2, 2), "thorough")]:
        # stored entries sharing a row and sharing a column, so that no mode-n Gram matrix is diagonal
        last = tuple(s - 1 for s in shape)
        pos = (last,) + tuple(last[:m] + (0,) + last[m + 1:] for m in range(len(shape)))
        for n in range(len(shape)):
            for r in range(1, shape[n] + 1):
                out.append(dict(shape=shape, pos=pos, n=n, r=r, flipsign=(shape[n] * r <= 4 and (r + n) % 2 == 0), _tier=tier))
    return out


@ob("C14", params=_sp_params(), max_paths=20000, validate=False, env_stub=True, bounds="sparse tensor with N+1 stored symbolic values (no mode-n Gram matrix diagonal); every n and r; contract stub")
def sparse_nvecs(E, shape, pos, n, r, flipsign):
    """sptensor.nvecs: same contract as the dense tensor"""
    S, pv = O.sparse_direct(E, "x", shape, pos)
    judge(E, S, O.sparse_ref(shape, pv), n, r, flipsign, "sptensor.nvecs")


@ob("C14", params=[dict(shape=s, R=R, n=n, r=r, flipsign=(r == 1 and s[n] <= 3), _tier=t) for s, R, t in [((2, 3), 2, "quick"), ((4, 2), 2, "quick"), ((3, 2, 2), 2, "thorough")]
                   for n in range(len(s)) for r in range(1, s[n] + 1)], max_paths=20000, validate=False, env_stub=True,
    bounds="Kruskal tensor with symbolic non-unit weights and factors; every n and r; contract stub")
def kruskal_nvecs(E, shape, R, n, r, flipsign):
    """ktensor.nvecs: the matrix built from the factor Gram matrices is the Gram matrix of the denoted array"""
    K = O.kruskal(E, "k", shape, R)
    judge(E, K, O.den(K), n, r, flipsign, "ktensor.nvecs")


@ob("C14", params=[dict(shape=s, core=c, n=n, r=r, flipsign=(s[n] * r <= 4 and r == 2), _tier=t) for s, c, t in [((2, 3), (2, 2), "quick"), ((4, 2), (2, 1), "quick"), ((3, 2, 2), (2, 2, 1), "thorough"),
                                                                                                                          ((2, 2, 2), (2, 1, 2), "quick")]
                   for n in range(len(s)) for r in range(1, s[n] + 1)], max_paths=20000, validate=False, env_stub=True,
    bounds="Tucker tensor with symbolic core and factors (incl. a 3-way core with more than one index on both sides of an interior mode, "
           "where the column order of the two unfoldings matters); every n and r; contract stub")
def tucker_nvecs(E, shape, core, n, r, flipsign):
    """ttensor.nvecs: the matrix computed through the core is the Gram matrix of the denoted array"""
    T = O.tucker(E, "t", shape, core)
    judge(E, T, O.den(T), n, r, flipsign, "ttensor.nvecs")
