"""C12 -- GCP losses, gradients and their tensor-level evaluation are mutually consistent."""
import itertools

import numpy as np
import pyttb as ttb
from pyttb.gcp import fg, fg_est, fg_setup
from pyttb.gcp.handles import Objectives
from symx.runner import ob
from symx import oracles as O
from symx.dual import Dual

LOSSES = {
    "GAUSSIAN": dict(model="any", param=None),
    "BERNOULLI_ODDS": dict(model="pos", param=None),
    "BERNOULLI_LOGIT": dict(model="any", param=None),
    "POISSON": dict(model="pos", param=None),
    "POISSON_LOG": dict(model="any", param=None),
    "RAYLEIGH": dict(model="pos", param=None),
    "GAMMA": dict(model="pos", param=None),
    "HUBER": dict(model="any", param="pos"),
    "NEGATIVE_BINOMIAL": dict(model="pos", param="pos"),
    "BETA": dict(model="pos", param="beta"),
}


@ob("C12", params=[dict(loss=k) for k in LOSSES],
    bounds="data x symbolic, model m symbolic in the loss's domain (m > 0 where the lower bound is 0), extra parameter symbolic (threshold > 0, trials > 0, beta > 1); log/exp/pow uninterpreted with the textbook derivative rules; Huber: both sides of the threshold and both signs by forks")
def loss_vs_gradient(E, loss):
    """the gradient handle is d/dm of the function handle (forward-mode dual numbers through the real loss code)"""
    cfg = LOSSES[loss]
    x = E.real("x")
    m = E.real("m", positive=True) if cfg["model"] == "pos" else E.real("m")
    p = None
    if cfg["param"] == "pos":
        p = E.real("p", positive=True)
    elif cfg["param"] == "beta":
        p = E.real("p", lo=1.5)
    f, g, lb = fg_setup.setup(Objectives[loss], None, p)
    val = f(x, Dual(m, 1.0))
    grad = g(x, m)
    E.eq(val.d, grad, f"d/dm {loss} == gradient handle")
    E.eq(val.v, f(x, m), f"{loss}: value part equals the plain evaluation")
    if cfg["model"] == "pos":
        E.true(lb == 0, "lower bound 0 for a loss defined on m >= 0")
    else:
        E.true(lb == -np.inf, "no lower bound")


def _uf_pair(E):
    """an uninterpreted loss f and its derivative g, tied by f(x, m + eps) = f(x, m) + g(x, m) eps"""
    F = E.uf("lossF", lambda x, m: (m - x) ** 2 + 0.5 * m * x + 0.25 * m ** 3)
    G = E.uf("lossG", lambda x, m: 2 * (m - x) + 0.5 * x + 0.75 * m ** 2)

    def fh(data, model):
        out = np.empty(np.shape(model), dtype=object)
        for i in np.ndindex(*np.shape(model)):
            mv = model[i]
            if isinstance(mv, Dual):
                out[i] = Dual(F(data[i], mv.v), G(data[i], mv.v) * mv.d)
            else:
                out[i] = F(data[i], mv)
        return _nat(E, out)

    def gh(data, model):
        out = np.empty(np.shape(model), dtype=object)
        for i in np.ndindex(*np.shape(model)):
            out[i] = G(data[i], model[i])
        return _nat(E, out)
    return F, G, fh, gh


def _nat(E, a):
    from symx import npenv
    if E.sym:
        return npenv.wrap(a)
    if any(isinstance(v, Dual) for v in a.ravel().tolist()):
        return a
    return np.array(a.tolist(), dtype=float)


EV_PARAMS = [dict(shape=(2, 2), R=1, weighted=False), dict(shape=(2, 2), R=2, weighted=True), dict(shape=(2, 3), R=1, weighted=True),
             dict(shape=(2, 3, 2), R=1, weighted=True), dict(shape=(2, 3, 2), R=2, weighted=False, _tier="thorough"),
             dict(shape=(2, 3, 4), R=1, weighted=False), dict(shape=(2, 2, 2, 2), R=1, weighted=True, _tier="thorough")]


@ob("C12", params=EV_PARAMS,
    bounds="uninterpreted loss/derivative pair (so the statement holds for every loss); symbolic data, factors, optional symbolic weight array; model weights all one (the documented GCP assumption)")
def evaluate_objective_and_gradients(E, shape, R, weighted):
    """evaluate(): F == sum w f(x, M); G[k] == exact partial derivatives of F w.r.t. factor k (dual numbers); sparse data == dense data"""
    N = len(shape)
    F_, G_, fh, gh = _uf_pair(E)
    X = O.dense(E, "x", shape)
    U = [E.reals(f"U{n}_", (s, R)) for n, s in enumerate(shape)]
    W = E.reals("w", shape) if weighted else None
    K = ttb.ktensor([u.copy() for u in U], E.const(np.ones(R)), copy=False)
    m = O.den(K)
    xc = O.cells(X.data)
    Fval, Gval = fg.evaluate(K, X, W, fh, gh)
    ref = 0.0
    for i in np.ndindex(*shape):
        t = F_(xc[i], m[i])
        ref = ref + (t * W[i] if weighted else t)
    E.eq(Fval, ref, "objective == (weighted) sum of the loss over all entries")
    E.true(len(Gval) == N, "one gradient per factor matrix")
    # exact partial derivatives: seed a dual perturbation on one factor entry at a time
    entries = [(n, i, r) for n in range(N) for i in range(shape[n]) for r in range(R)]
    for (n, i, r) in entries:
        Ud = [u.copy() for u in U]
        Ud[n] = Ud[n].astype(object) if not E.sym else Ud[n]
        Ud[n][i, r] = Dual(U[n][i, r], 1.0)
        Kd = _ktensor_nocheck(Ud, E.const(np.ones(R)))
        Fd = fg.evaluate(Kd, X, W, fh, None)
        E.eq(Fd.d if isinstance(Fd, Dual) else 0.0, Gval[n][i, r], f"dF/dU{n}[{i},{r}] == evaluate gradient")
    # function-only / gradient-only calls agree
    E.eq(fg.evaluate(K, X, W, fh, None), ref, "function-only evaluation")
    Gonly = fg.evaluate(K, X, W, None, gh)
    for n in range(N):
        E.eq(Gonly[n], Gval[n], "gradient-only evaluation")
    # sparse data holder (every sparsity pattern by forks: small shapes only)
    if int(np.prod(shape)) <= 4:
        Fs, Gs = fg.evaluate(K, X.to_sptensor(), W, fh, gh)
        E.eq(Fs, ref, "objective with sparse data holder")
        for n in range(N):
            E.eq(Gs[n], Gval[n], "gradients with sparse data holder")


def _ktensor_nocheck(factors, weights):
    K = ttb.ktensor.__new__(ttb.ktensor)
    K.factor_matrices = factors
    K.weights = weights
    return K


@ob("C12", params=[dict(shape=(2, 2), R=1), dict(shape=(2, 3), R=2), dict(shape=(2, 3, 2), R=1), dict(shape=(2, 2, 2), R=2, _tier="thorough"),
                   dict(shape=(2, 3, 4), R=1, _tier="thorough")],
    bounds="estimate() on the complete subscript list (in F order and in a shuffled order) with unit sample weights vs evaluate(); uninterpreted loss pair; leave-one-out products against the definition")
def estimate_equals_evaluate(E, shape, R):
    """the sampled estimator on every entry with unit weights equals the exact evaluation (value and every gradient)"""
    N = len(shape)
    F_, G_, fh, gh = _uf_pair(E)
    X = O.dense(E, "x", shape)
    U = [E.reals(f"U{n}_", (s, R)) for n, s in enumerate(shape)]
    K = ttb.ktensor([u.copy() for u in U], E.const(np.ones(R)), copy=False)
    Fval, Gval = fg.evaluate(K, X, None, fh, gh)
    allsubs = np.array(list(np.ndindex(*shape[::-1])))[:, ::-1]
    for label, perm in (("F order", np.arange(len(allsubs))), ("shuffled", np.arange(len(allsubs))[::-1])):
        subs = allsubs[perm]
        vals = X[subs] if len(subs) > 1 else np.atleast_1d(X[subs])
        w = E.const(np.ones(len(subs)))
        Fe, Ge = fg_est.estimate(K, subs, vals, w, fh, gh, lambda_check=True, crng=None)
        E.eq(Fe, Fval, f"estimate == evaluate ({label})")
        for n in range(N):
            E.eq(Ge[n], Gval[n], f"estimated gradient {n} == exact gradient ({label})")
    mv, Z = fg_est.estimate_helper(K.factor_matrices, allsubs)
    m = O.den(K)
    for s, idx in enumerate(allsubs.tolist()):
        E.eq(mv[s], m[tuple(idx)], "estimate_helper: model value at the sample")
        for k in range(N):
            for r in range(R):
                t = 1.0
                for j in range(N):
                    if j != k:
                        t = t * U[j][idx[j], r]
                E.eq(Z[k][s, r], t, "estimate_helper: leave-one-out Hadamard product")


@ob("C12", params=[dict(shape=(2, 3), R=2), dict(shape=(2, 3, 4), R=1), dict(shape=(3, 2, 2), R=2), dict(shape=(2, 2, 3, 2), R=1),
                   dict(shape=(2, 2, 2, 2), R=2, _tier="thorough"), dict(shape=(4, 3, 2), R=1, _tier="thorough")],
    bounds="symbolic data and factors; every min_split outcome among the listed shapes")
def mttkrps_equals_mttkrp(E, shape, R):
    """computing all mode gradients at once (mttkrps) equals computing them one mode at a time (mttkrp)"""
    X = O.dense(E, "x", shape)
    U = [E.reals(f"U{n}_", (s, R)) for n, s in enumerate(shape)]
    alls = X.mttkrps(U)
    for n in range(len(shape)):
        E.eq(alls[n], X.mttkrp(U, n), f"mttkrps[{n}] == mttkrp(., {n})")
        E.eq(alls[n], O.ref_mttkrp(O.cells(X.data), U, n), f"mttkrps[{n}] == definition")
