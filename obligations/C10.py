"""C10 -- Tucker decompositions: everything hosvd / tucker_als do around the eigen-solver (contract stubs)."""
import itertools

import numpy as np
import pyttb as ttb
from symx.runner import ob
from symx import oracles as O
from symx import harness as H
from obligations.C14 import gram


def _sumsq(c):
    return O.ref_sumsq(c)


DATA = {
    # concrete data (the real eigen-solver answers; tol stays symbolic): norm < 1, = 1 and > 1, asymmetric
    "small": lambda shape: (((np.arange(int(np.prod(shape))) * 7 + 3) % 11 - 4.0) / 40.0).reshape(shape, order="F"),
    "unit": lambda shape: _unit(shape),
    "big": lambda shape: ((np.arange(int(np.prod(shape))) * 5 + 1) % 7 + 1.0).reshape(shape, order="F"),
}


def _unit(shape):
    """norm exactly 1, distinct singular values in every unfolding"""
    a = np.zeros(shape)
    a[(0,) * len(shape)] = 0.6
    a[(1,) * len(shape)] = 0.8
    return a


def _hosvd_params():
    out = []
    for shape, tier in [((2, 2), "quick"), ((2, 3), "quick"), ((2, 2, 2), "thorough")]:
        N = len(shape)
        for seq in (True, False):
            datas = ["small", "big"] + ([] if seq else ["sym"]) + (["unit"] if N == 2 else [])
            for data in datas:
                for dimorder in ([None] + [list(p) for p in itertools.permutations(range(N)) if list(p) != list(range(N))][:1]):
                    out.append(dict(shape=shape, sequential=seq, dimorder=dimorder, ranks=None, data=data, _tier=tier))
            for ranks in ([[1] * N, list(shape), [min(2, s) for s in shape][::-1] if N == 2 and shape[0] != shape[1] else [1] + [min(2, s) for s in shape[1:]]]):
                out.append(dict(shape=shape, sequential=seq, dimorder=None, ranks=ranks, data=("sym" if not seq else "big"), _tier=tier))
    return out


@ob("C10", params=_hosvd_params(), max_paths=20000, validate=False, env_stub=True,
    bounds="tol symbolic in (0,1); data symbolic with the eigen-solver as a contract stub (non-sequential) or concrete data of norm <1 / =1 / >1 answered by the real eigen-solver (both strategies); default and permuted mode orders; automatic and explicit ranks")
def hosvd_structure(E, shape, sequential, dimorder, ranks, data):
    """hosvd: Gram matrix per mode, rank rule (tail <= tol^2 ||X||^2 / N and minimal), leading columns in order, core relation"""
    N = len(shape)
    if data == "sym":
        X = O.dense(E, "x", shape)
    else:
        X = ttb.tensor(E.const(DATA[data](shape)))
    c = O.cells(X.data)
    normsq = _sumsq(c)
    E.assume(normsq != 0)
    tol = E.real("tol", lo=0)
    E.assume((tol > 0) & (tol < 1))
    thresh = tol * tol * normsq / N
    # sequential truncation: the stub's eigenvectors are not tied to its eigenvalues, so the shrunk tensor may have
    # less energy than the threshold -- impossible for true eigenpairs when tol^2 < N/2 (the energy kept in one
    # mode is >= ||X||^2 (1 - tol^2/N)); that lemma is assumed here as part of the stub's contract
    with H.eig(E, psd=True, trace_gt=(thresh if sequential and ranks is None else None), exact2=False) as st:
        T = ttb.hosvd(X, tol, verbosity=0, dimorder=dimorder, sequential=sequential, ranks=(list(ranks) if ranks is not None else None))
    order = list(range(N)) if dimorder is None else list(dimorder)
    E.true(len(st.calls) == N, "one eigen-decomposition per mode", f"{len(st.calls)}")
    if len(st.calls) != N:
        return
    cur = c
    for step, k in enumerate(order):
        call = st.calls[step]
        E.true(call["kind"] == "eigh", "symmetric eigen-solver used")
        E.eq(call["A"], gram(cur, k), f"mode {k}: matrix handed to the eigen-solver is the Gram matrix of the current unfolding")
        w = call["w"]
        n = len(w)
        desc = list(range(n))[::-1]  # eigh returns ascending eigenvalues
        U = T.factor_matrices[k]
        r = int(np.shape(U)[1])
        E.true(np.shape(U)[0] == shape[k] and 1 <= r <= n, f"mode {k}: factor shape", f"{np.shape(U)}")
        if ranks is not None:
            E.true(r == ranks[k], f"mode {k}: exactly the requested number of columns", f"{r} vs {ranks[k]}")
        else:
            tail = lambda q: sum((w[desc[j]] for j in range(q, n)), 0.0)  # noqa: E731
            E.true(tail(r) <= thresh, f"mode {k}: discarded eigenvalue mass <= tol^2 ||X||^2 / N")
            E.true(tail(r - 1) > thresh, f"mode {k}: no smaller rank satisfies the threshold")
        for col in range(min(r, n)):
            E.eq(U[:, col], call["V"][:, desc[col]], f"mode {k}: column {col} is the eigenvector of the {col + 1}-th largest eigenvalue")
        if sequential:
            cur = O.ref_ttm(cur, {k: O.cells(np.asarray(U)).T})
    core_ref = O.ref_ttm(c, {k: O.cells(np.asarray(T.factor_matrices[k])).T for k in range(N)})
    E.eq(O.den(T.core), core_ref, "core == data multiplied in every mode by the transposed factor")
    E.eq(X.data, c, "data unchanged")


def _tucker_params():
    out = []
    for shape, rank, tier in [((2, 2), (1, 1), "quick"), ((2, 3), (2, 2), "quick"), ((2, 3), (1, 2), "quick"), ((2, 2, 2), (1, 2, 1), "thorough"), ((2, 3, 2), (2, 1, 2), "thorough")]:
        N = len(shape)
        for init in ("list", "random", "nvecs"):
            for dimorder in ([None] + ([list(range(N))[::-1]] if init == "list" else [])):
                for maxiters in (1, 2):
                    if maxiters == 2 and init != "list":
                        continue
                    t = tier
                    if rank == (2, 2) and (maxiters == 2 or init == "random"):
                        t = "thorough"  # minutes of nlsat time
                    out.append(dict(shape=shape, rank=rank, init=init, dimorder=dimorder, maxiters=maxiters, _tier=t))
    return out


@ob("C10", params=_tucker_params(), max_paths=20000, validate=False, env_stub=True,
    bounds="data concrete (asymmetric integers); nvecs = contract stub returning fresh symbolic matrices; starting guess given (symbolic list) / random (RNG stub) / nvecs; 1-2 sweeps; default and reversed mode order")
def tucker_als_structure(E, shape, rank, init, dimorder, maxiters):
    """tucker_als: projected tensor handed to nvecs, factors returned, core relation, reported fit / residual, iteration count, initial guess"""
    N = len(shape)
    # data: concrete asymmetric integers (a symbolic tensor makes every sign / stopping decision of the sweep a
    # high-degree polynomial inequality in data AND stub outputs: z3 needs seconds per branch and often gives up);
    # everything the stubs return stays symbolic
    X = ttb.tensor(E.const(((np.arange(int(np.prod(shape))) * 7 + 3) % 11 - 4.0).reshape(shape, order="F")))
    c = O.cells(X.data)
    normsq = _sumsq(c)
    order = list(range(N)) if dimorder is None else list(dimorder)
    if init == "list":
        U0 = [E.reals(f"U{n}_", (shape[n], rank[n])) for n in range(N)]
        init_arg = [u.copy() for u in U0]
    else:
        U0, init_arg = None, init
    with H.rng(E) as R, H.nvecs_stub(E) as st:
        T, Uinit, out = ttb.tucker_als(X, list(rank), stoptol=1e-4, maxiters=maxiters, dimorder=dimorder, init=init_arg, printitn=0)
    calls = list(st.calls)
    if init == "nvecs":
        ninit = N - 1
        for j, n in enumerate(order[1:]):
            E.eq(calls[j]["cells"], c, "init=nvecs: leading vectors of the data itself")
            E.true(calls[j]["n"] == n and calls[j]["r"] == rank[n], "init=nvecs: mode and count")
            E.eq(Uinit[n], calls[j]["V"], "returned initial guess is the one computed")
        calls = calls[ninit:]
        cur = {n: O.cells(np.asarray(Uinit[n])) for n in order[1:]}
    elif init == "random":
        want = sum(shape[n] * rank[n] for n in order[1:])
        E.true(len(R.draws) == want, "init=random: one draw per entry of the factors that need a guess", f"{len(R.draws)} vs {want}")
        E.true(R.seeds == [], "the global random stream is not reseeded")
        for n in order[1:]:
            for v in np.asarray(Uinit[n]).ravel().tolist():
                E.true((v >= 0) & (v < 1), "random guess entries in [0,1)")
        cur = {n: O.cells(np.asarray(Uinit[n])) for n in order[1:]}
    else:
        for n in order[1:]:
            E.eq(Uinit[n], U0[n], "returned initial guess is the one supplied")
            E.eq(init_arg[n], U0[n], "caller's guess unchanged")
        cur = {n: O.cells(U0[n]) for n in order[1:]}
    iters = int(out["iters"])
    E.true(0 <= iters <= maxiters - 1, "iteration count within the limit", f"{iters}")
    E.true(len(calls) == (iters + 1) * N, "one nvecs request per mode and sweep", f"{len(calls)} for {iters + 1} sweep(s)")
    if len(calls) != (iters + 1) * N:
        return
    j = 0
    for sweep in range(iters + 1):
        for n in order:
            call = calls[j]
            j += 1
            proj = O.ref_ttm(c, {m: cur[m].T for m in range(N) if m != n and m in cur})
            E.eq(call["cells"], proj, f"sweep {sweep}: tensor handed to nvecs for mode {n} is the data projected on all other factors")
            E.true(call["n"] == n and call["r"] == rank[n], "mode and requested count")
            cur[n] = O.cells(np.asarray(call["V"]))
    for n in range(N):
        E.eq(T.factor_matrices[n], cur[n], f"returned factor {n} is the last one computed")
        E.true(np.shape(T.factor_matrices[n]) == (shape[n], rank[n]), "factor has the requested number of columns")
    core_ref = O.ref_ttm(c, {m: cur[m].T for m in range(N)})
    E.eq(O.den(T.core), core_ref, "core == data multiplied in every mode by the transposed factor")
    g2 = _sumsq(core_ref)
    nr = out["normresidual"]
    d = normsq - g2
    E.eq(nr * nr, d if (d >= 0) else -d, "normresidual^2 == | ||X||^2 - ||G||^2 |")
    nx = X.norm()
    E.eq((1 - out["fit"]) * nx, nr, "fit == 1 - normresidual / ||X||")
    E.eq(X.data, c, "data unchanged")
