#!/usr/bin/env python
"""Entry point of every check:  check.py <property> --tier quick|thorough   |   check.py --replay <file>

Re-executes itself with the overlay interpreter (/verif/.venv, built by setup.sh) if needed."""
import os
import sys

HERE = os.path.dirname(os.path.abspath(__file__))
VENV_PY = os.path.join(HERE, ".venv", "bin", "python")

if os.path.realpath(sys.prefix) != os.path.join(HERE, ".venv") and not os.environ.get("VERIF_NO_REEXEC"):
    if not os.path.exists(VENV_PY):
        import subprocess
        subprocess.check_call([os.path.join(HERE, "setup.sh")], stdout=subprocess.DEVNULL)
    os.environ["VERIF_NO_REEXEC"] = "1"
    os.execv(VENV_PY, [VENV_PY, os.path.abspath(__file__)] + sys.argv[1:])

sys.path.insert(0, HERE)
os.environ.setdefault("PYTHONHASHSEED", "0")
os.environ.setdefault("OMP_NUM_THREADS", "1")
os.environ.setdefault("OPENBLAS_NUM_THREADS", "1")
import warnings  # noqa: E402

warnings.filterwarnings("ignore")
import logging  # noqa: E402

logging.disable(logging.WARNING)
from symx import runner  # noqa: E402

if __name__ == "__main__":
    sys.exit(runner.main())
