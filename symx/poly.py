"""Canonical rational functions (optional; obligations opt in with canon=True).

Whole-algorithm runs with one or two symbolic inputs (CP-APR) build numerator / denominator terms whose *size*
grows exponentially although the rational function they denote stays small (common factors are never cancelled by
the (n, d) pair arithmetic of core.SymReal).  With canon on, core.mkreal expands numerator and denominator to sparse
polynomials over the atoms (variables, uninterpreted applications), cancels their gcd (univariate: Euclid over Q;
otherwise numeric content and common monomial only), scales the denominator to leading coefficient 1 and rebuilds
the nodes in a canonical form (Horner for univariate polynomials).  Equal rational functions then are the same pair
of nodes.  This is a change of *representation* only: the value under every assignment is unchanged, so soundness
does not depend on it (the witness value carried by the SymReal is checked against the rebuilt nodes in debug mode).
"""
from fractions import Fraction

from . import core

ON = [False]
MAX_TERMS = 4000
_POLY = {}   # node uid -> poly (dict: monomial -> Fraction) or None (not expandable / too large)
_ATOM = {}   # atom key -> node
STATS = {"canon": 0, "gcd": 0, "giveup": 0}


def reset():
    _POLY.clear()
    _ATOM.clear()


def _atom(n):
    key = n.uid
    _ATOM[key] = n
    return {((key, 1),): Fraction(1)}


def _pmul(a, b):
    if len(a) * len(b) > 4 * MAX_TERMS:
        return None
    out = {}
    for ma, ca in a.items():
        for mb, cb in b.items():
            if not ma:
                m = mb
            elif not mb:
                m = ma
            else:
                d = dict(ma)
                for k, e in mb:
                    d[k] = d.get(k, 0) + e
                m = tuple(sorted(d.items()))
            c = out.get(m, 0) + ca * cb
            if c == 0:
                out.pop(m, None)
            else:
                out[m] = c
    return out


def _padd(a, b, sign=1):
    out = dict(a)
    for m, c in b.items():
        c2 = out.get(m, 0) + sign * c
        if c2 == 0:
            out.pop(m, None)
        else:
            out[m] = c2
    return out


def poly(n):
    """sparse polynomial of a real node over its atoms, or None"""
    r = _POLY.get(n.uid, 0)
    if r != 0:
        return r
    r = _poly(n)
    if r is not None and len(r) > MAX_TERMS:
        r = None
    _POLY[n.uid] = r
    return r


def _poly(n):
    op = n.op
    if n.sort != "R":
        return None
    if op == "const":
        c = Fraction(core.cval(n))
        return {(): c} if c != 0 else {}
    if op in ("add", "sub", "mul"):
        # iterative on the left spine would be nicer; depth is bounded by Python's recursion limit (raised by check.py)
        a = poly(n.args[0])
        if a is None:
            return None
        b = poly(n.args[1])
        if b is None:
            return None
        if op == "mul":
            return _pmul(a, b)
        return _padd(a, b, 1 if op == "add" else -1)
    if op == "neg":
        a = poly(n.args[0])
        if a is None:
            return None
        return {m: -c for m, c in a.items()}
    if op == "ite":
        return None
    return _atom(n)


def _vars(p):
    out = set()
    for m in p:
        for k, _ in m:
            out.add(k)
    return out


# ---- univariate helpers (dense coefficient lists, lowest degree first)

def _to_uni(p, x):
    deg = max((m[0][1] if m else 0) for m in p) if p else -1
    out = [Fraction(0)] * (deg + 1)
    for m, c in p.items():
        out[m[0][1] if m else 0] = c
    return out


def _from_uni(cs, x):
    out = {}
    for e, c in enumerate(cs):
        if c != 0:
            out[((x, e),) if e else ()] = c
    return out


def _trim(a):
    while a and a[-1] == 0:
        a.pop()
    return a


def _urem(a, b):
    a = list(a)
    db = len(b) - 1
    lb = b[-1]
    while len(a) - 1 >= db and a:
        q = a[-1] / lb
        sh = len(a) - 1 - db
        for i, c in enumerate(b):
            a[sh + i] -= q * c
        a.pop()
        _trim(a)
    return a


def _udiv(a, b):
    """exact quotient a / b (b divides a)"""
    a = list(a)
    db = len(b) - 1
    lb = b[-1]
    q = [Fraction(0)] * (len(a) - db)
    while a and len(a) - 1 >= db:
        c = a[-1] / lb
        sh = len(a) - 1 - db
        q[sh] = c
        for i, bc in enumerate(b):
            a[sh + i] -= c * bc
        a.pop()
        _trim(a)
    return q


def _prim(a):
    """primitive integer polynomial proportional to a (coefficient list)"""
    from math import gcd
    L = 1
    for c in a:
        L = L * c.denominator // gcd(L, c.denominator)
    ints = [int(c * L) for c in a]
    g = 0
    for c in ints:
        g = gcd(g, c)
    if g > 1:
        ints = [c // g for c in ints]
    return ints


def _ugcd(a, b):
    """gcd over Q by the primitive polynomial remainder sequence on integer coefficients (plain Euclid over the
    rationals blows the coefficients up exponentially); result monic"""
    from math import gcd
    a, b = _prim(a), _prim(b)
    if len(a) < len(b):
        a, b = b, a
    while b:
        r = list(a)
        db = len(b) - 1
        lb = b[-1]
        while r and len(r) - 1 >= db:
            lr = r[-1]
            g = gcd(lr, lb)
            m1, m2 = lb // g, lr // g
            sh = len(r) - 1 - db
            r = [c * m1 for c in r]
            for i, c in enumerate(b):
                r[sh + i] -= m2 * c
            r.pop()
            while r and r[-1] == 0:
                r.pop()
        if r:
            g = 0
            for c in r:
                g = gcd(g, c)
            r = [c // g for c in r]
        a, b = b, r
    lc = a[-1]
    return [Fraction(c, lc) for c in a]


def _monomial_gcd(p, q):
    common = None
    for poly_ in (p, q):
        for m in poly_:
            d = dict(m)
            if common is None:
                common = d
            else:
                common = {k: min(e, d[k]) for k, e in common.items() if k in d}
            if not common:
                return {}
    return common or {}


def _div_monomial(p, g):
    if not g:
        return p
    out = {}
    for m, c in p.items():
        d = dict(m)
        for k, e in g.items():
            d[k] -= e
            if d[k] == 0:
                del d[k]
        out[tuple(sorted(d.items()))] = c
    return out


def _lead(p):
    """leading coefficient under a fixed monomial order (total degree, then lexicographic)"""
    best = max(p, key=lambda m: (sum(e for _, e in m), m))
    return p[best]


def _build_monomial(m):
    node = None
    for k, e in m:
        a = _ATOM[k]
        for _ in range(e):
            node = a if node is None else core.mul(node, a)
    return node


def _build(p):
    if not p:
        return core.R0
    vs = _vars(p)
    if len(vs) == 1:
        (x,) = vs
        cs = _to_uni(p, x)
        xa = _ATOM[x]
        node = core.rconst(cs[-1])
        for c in reversed(cs[:-1]):
            node = core.mul(node, xa)
            if c != 0:
                node = core.add(node, core.rconst(c))
        return node
    node = None
    for m in sorted(p, key=lambda m: (sum(e for _, e in m), m)):
        c = p[m]
        mono = _build_monomial(m)
        term = core.rconst(c) if mono is None else (mono if c == 1 else core.mul(core.rconst(c), mono))
        node = term if node is None else core.add(node, term)
    return node


def canon(n, d):
    """(n, d) -> canonical (n', d') denoting the same rational function, or None if not applicable"""
    pn = poly(n)
    if pn is None:
        STATS["giveup"] += 1
        return None
    pd = poly(d) if d is not None else {(): Fraction(1)}
    if pd is None or not pd:
        STATS["giveup"] += 1
        return None
    STATS["canon"] += 1
    if not pn:
        return core.R0, None
    if len(pd) > 1 or () not in pd:
        g = _monomial_gcd(pn, pd)
        if g:
            pn, pd = _div_monomial(pn, g), _div_monomial(pd, g)
        vs = _vars(pn) | _vars(pd)
        if len(vs) == 1 and _vars(pd):
            (x,) = vs
            a, b = _to_uni(pn, x), _to_uni(pd, x)
            gg = _ugcd(a, b)
            if len(gg) > 1:
                STATS["gcd"] += 1
                a, b = _udiv(a, gg), _udiv(b, gg)
                pn, pd = _from_uni(a, x), _from_uni(b, x)
    lc = _lead(pd)
    if lc != 1:
        pn = {m: c / lc for m, c in pn.items()}
        pd = {m: c / lc for m, c in pd.items()}
    nn = _build(pn)
    _POLY.setdefault(nn.uid, pn)
    dd = None
    if not (len(pd) == 1 and () in pd):
        dd = _build(pd)
        _POLY.setdefault(dd.uid, pd)
    return nn, dd
