"""symx.dual -- forward-mode dual numbers (value, derivative) that flow through the real loss functions.
Components are SymReal / float; transcendental functions use the explorer's uninterpreted hooks, their
derivative rules are the textbook ones (d log u = du/u, d exp u = exp u du, d u^p = p u^(p-1) du)."""
from __future__ import annotations

import math

import numpy as np

from . import core
from .core import SymBool, SymReal


def _log(x):
    if isinstance(x, SymReal):
        return core.cur().hooks.log(x)
    return math.log(x)


def _exp(x):
    if isinstance(x, SymReal):
        return core.cur().hooks.exp(x)
    return math.exp(x)


def _pow(b, e):
    if isinstance(e, (int, np.integer)) or (isinstance(e, (float, np.floating)) and float(e) == int(e)):
        return b ** int(e)
    if isinstance(b, SymReal) or isinstance(e, SymReal):
        if isinstance(e, SymReal) and e.is_constant() and e.v.denominator == 1:
            return b ** int(e.v)
        return core.cur().hooks.pow(b, e)
    return b ** e


class Dual:
    _symx_passthrough = True
    __array_priority__ = 2000

    def __init__(self, v, d=0.0):
        self.v = v
        self.d = d

    @staticmethod
    def _c(o):
        if isinstance(o, Dual):
            return o
        if isinstance(o, (SymReal, int, float, np.integer, np.floating)):
            return Dual(o, 0.0)
        if isinstance(o, (bool, np.bool_, SymBool)):
            return Dual((o._r() if isinstance(o, SymBool) else float(o)), 0.0)
        return None

    def __add__(self, o):
        o = Dual._c(o)
        if o is None:
            return NotImplemented
        return Dual(self.v + o.v, self.d + o.d)

    __radd__ = __add__

    def __sub__(self, o):
        o = Dual._c(o)
        if o is None:
            return NotImplemented
        return Dual(self.v - o.v, self.d - o.d)

    def __rsub__(self, o):
        o = Dual._c(o)
        if o is None:
            return NotImplemented
        return Dual(o.v - self.v, o.d - self.d)

    def __mul__(self, o):
        o = Dual._c(o)
        if o is None:
            return NotImplemented
        return Dual(self.v * o.v, self.d * o.v + self.v * o.d)

    __rmul__ = __mul__

    def __truediv__(self, o):
        o = Dual._c(o)
        if o is None:
            return NotImplemented
        return Dual(self.v / o.v, (self.d * o.v - self.v * o.d) / (o.v * o.v))

    def __rtruediv__(self, o):
        o = Dual._c(o)
        if o is None:
            return NotImplemented
        return o.__truediv__(self)

    def __neg__(self):
        return Dual(-self.v, -self.d)

    def __pos__(self):
        return self

    def __abs__(self):
        return self if bool(self.v >= 0) else -self

    def __pow__(self, p):
        if isinstance(p, Dual):
            if not _is_zero(p.d):
                raise core.Unmodelled("dual exponent with non-zero derivative")
            p = p.v
        return Dual(_pow(self.v, p), p * _pow(self.v, p - 1) * self.d)

    def __rpow__(self, b):
        e = _pow(b, self.v)
        return Dual(e, e * _log(b) * self.d)

    def log(self):
        return Dual(_log(self.v), self.d / self.v)

    def exp(self):
        e = _exp(self.v)
        return Dual(e, e * self.d)

    def sqrt(self):
        r = self.v ** 0.5
        return Dual(r, self.d / (2 * r))

    def conjugate(self):
        return self

    # comparisons look at the value only
    def __lt__(self, o):
        return self.v < Dual._c(o).v

    def __le__(self, o):
        return self.v <= Dual._c(o).v

    def __gt__(self, o):
        return self.v > Dual._c(o).v

    def __ge__(self, o):
        return self.v >= Dual._c(o).v

    def __eq__(self, o):
        c = Dual._c(o)
        return NotImplemented if c is None else (self.v == c.v)

    def __ne__(self, o):
        c = Dual._c(o)
        return NotImplemented if c is None else (self.v != c.v)

    def __hash__(self):
        return id(self)

    def __bool__(self):
        return bool(self.v != 0)

    def __float__(self):
        raise TypeError("float() of a dual number")

    def __repr__(self):
        return f"Dual({self.v!r}, {self.d!r})"

    def item(self):
        return self

    @property
    def real(self):
        return self


def _is_zero(x):
    if isinstance(x, SymReal):
        return x.is_constant() and x.v == 0
    return x == 0
