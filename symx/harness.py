"""symx.harness -- the object (`Env`) through which an obligation talks to the engine.

An obligation is a plain function `body(E, **params)`.  It is executed
  * symbolically (mode 'sym'): inputs are symbolic scalars / object arrays, `E.eq/true/...`
    hand goals to z3 under the path condition, for every path of the concolic exploration;
  * concretely (mode 'conc'): inputs are float64 / int taken from an assignment, the *unpatched*
    pyttb runs on real NumPy and goals are compared numerically -- used to replay a solver
    model before anything is reported, and to validate the symbolic substrate path by path.
"""
from __future__ import annotations

import math
import os
import time
import traceback
from fractions import Fraction

import numpy as np
import z3

from . import core, npenv
from .core import (Abort, Cut, Node, SymBool, SymInt, SymReal, Unmodelled, band, bnot, bor, cmp,
                   to_z3)


class Failure:
    def __init__(self, kind, label, detail, assignment, exact, site=""):
        self.kind = kind  # mismatch | exception:<T> | no-exception | illformed | ...
        self.label = label
        self.detail = detail
        self.assignment = assignment  # name -> "p/q"
        self.exact = exact
        self.site = site

    def cls(self):
        """input class of the failing assignment: sign of every input (the granularity at which
        known findings are recorded)"""
        out = []
        for k, v in self.assignment.items():
            f = Fraction(v)
            out.append(f"{k}{'+' if f > 0 else '-' if f < 0 else '0'}")
        return " ".join(out)

    def to_json(self):
        return dict(kind=self.kind, label=self.label, detail=self.detail[:600], site=self.site,
                    assignment=self.assignment, exact=self.exact, cls=self.cls())


def _isnan(a):
    return isinstance(a, (float, np.floating)) and a != a


def _isinf(a):
    return isinstance(a, (float, np.floating)) and a in (float("inf"), float("-inf"))


def _site_of(exc):
    """innermost pyttb frame of an exception traceback"""
    site = ""
    for fs in traceback.extract_tb(exc.__traceback__):
        if "/pyttb/" in fs.filename:
            site = f"{fs.filename.split('/pyttb/')[-1]}:{fs.name}"
    return site


class Stats:
    def __init__(self):
        self.goals = 0
        self.goals_trivial = 0
        self.goal_cells = 0
        self.rung = {"witness": 0, "defs": 0, "pc": 0}
        self.solver_calls = 0
        self.solver_s = 0.0
        self.unknown = 0


class Env:
    def __init__(self, mode, path=None, assignment=None, stats=None, rlimit=20_000_000, seed=0):
        self.mode = mode
        self.path = path
        self.assignment = assignment or {}
        self.stats = stats or Stats()
        self.rlimit = rlimit
        self.seed = seed
        self.inputs = {}  # name -> sort
        self.fails = []
        self.unknowns = []
        self.record = []  # (label, [values]) for substrate validation
        self.proved = 0
        self.soft = False  # goals involve uninterpreted functions: sat needs replay to count
        self.int_ranges = {}

    sym = property(lambda self: self.mode == "sym")

    # ------------------------------------------------------------------ inputs
    def real(self, name, nonzero=False, positive=False, nonneg=False, lo=None, hi=None, default=None):
        self.inputs[name] = "R"
        if self.sym:
            x = self.path.fresh_real(name, default)
            if nonzero:
                self.path.assume(x != 0)
            if positive:
                from . import poly
                if poly.ON[0]:
                    # canonical mode: the variable is structurally positive from here on; the assumption itself is
                    # recorded as a raw node (cmp() would fold it away on re-executions)
                    self.path.assume(SymBool(core.mk("lt", (core.R0, x.n), "B"), x.v > 0))
                    core.POSVARS.add(name)
                    core._SIGN_MEMO.pop(x.n.uid, None)
                else:
                    self.path.assume(x > 0)
            if nonneg:
                self.path.assume(x >= 0)
            if lo is not None:
                self.path.assume(x >= lo)
            if hi is not None:
                self.path.assume(x < hi)
            return x
        if name in self.assignment:
            q = Fraction(self.assignment[name])
            # a replayed input outside the declared domain is not an input of the obligation: no verdict from it
            if (nonzero and q == 0) or (positive and q <= 0) or (nonneg and q < 0) or (lo is not None and q < lo) or (hi is not None and q >= hi):
                raise Abort()
            return float(q)
        v = Fraction(default) if default is not None else _default(self.seed, name, "R")
        return float(v)

    def reals(self, name, shape, **kw):
        shape = tuple(shape) if not isinstance(shape, int) else (shape,)
        n = int(np.prod(shape)) if shape else 1
        vals = [self.real(f"{name}{i}", **kw) for i in range(n)]
        if self.sym:
            return npenv.obj_array(vals, shape)
        return np.array(vals, dtype=float).reshape(shape, order="F")

    def int(self, name, lo, hi, default=None):
        """integer input ranging over [lo, hi] (inclusive)"""
        self.inputs[name] = "I"
        self.int_ranges[name] = (lo, hi)
        if self.sym:
            if default is None:
                default = lo + (_default(self.seed, name, "I") % (hi - lo + 1))
            x = self.path.fresh_int(name, default)
            self.path.assume((x >= lo) & (x <= hi))
            return x
        if name in self.assignment:
            v = int(Fraction(self.assignment[name]))
            if not (lo <= v <= hi):
                raise Abort()  # outside the declared range: not an input of the obligation
            return v
        return lo + (_default(self.seed, name, "I") % (hi - lo + 1)) if default is None else default

    def const(self, arr):
        """a concrete float array, in the representation of the current mode"""
        arr = np.asarray(arr, dtype=float)
        if self.sym:
            return npenv.obj_array(arr)
        return arr.copy()

    def assume(self, cond):
        if self.sym:
            self.path.assume(cond)
        elif not cond:
            raise Abort()

    def hint_sumsq(self, cells):
        """sign certificate candidate: the sum of squares of `cells` (non-negative by construction)"""
        if self.sym:
            s = 0
            for v in np.asarray(cells, dtype=object).ravel().tolist():
                s = s + v * v
            if isinstance(s, SymReal) and s.d is None:
                self.path.nonneg_hints.append(s.n)

    def hint_nonneg(self, x):
        if self.sym and isinstance(x, SymReal) and x.d is None:
            self.path.nonneg_hints.append(x.n)

    def uf(self, name, conc):
        """an uninterpreted real function (sym) with a fixed concrete stand-in (conc): statements proved with it
        hold for every function"""
        def f(*args):
            if self.sym and any(core.is_sym(a) for a in args):
                self.soft = True
                return self.path.hooks._uf(name, list(args), conc(*[float(core.sym_value(a)) for a in args]))
            return conc(*[float(a) for a in args])
        return f

    def assume_eq(self, a, b):
        """equality assumption (in 'conc' mode compared with a tolerance: replayed models may be rounded)"""
        if self.sym:
            self.path.assume(a == b)
        elif not _close(a, b, 1e-6, 1e-9):
            raise Abort()

    def cases(self, name, n):
        """an enumerated choice 0..n-1 decided by the explorer (a fork, not a bound)"""
        return int(self.int(name, 0, n - 1))

    # ------------------------------------------------------------------ goals
    def _witness_assignment(self, model=None):
        out = {}
        p = self.path
        for name, sort in self.inputs.items():
            val = None
            if model is not None:
                zv = z3.Int(name) if sort == "I" else z3.Real(name)
                mv = model.eval(zv, model_completion=False)
                if sort == "I" and z3.is_int_value(mv):
                    val = Fraction(mv.as_long())
                elif z3.is_rational_value(mv):
                    val = Fraction(mv.numerator_as_long(), mv.denominator_as_long())
                elif z3.is_algebraic_value(mv):
                    a = mv.approx(30)
                    val = Fraction(a.numerator_as_long(), a.denominator_as_long())
            if val is None:
                val = Fraction(p.assign.get(name, 0))
            out[name] = str(val)
        return out

    def _fail(self, kind, label, detail, model=None, site=""):
        if self.sym:
            asg = self._witness_assignment(model)
            exact = self.path.exact if model is None else True
        else:
            asg, exact = {k: str(v) for k, v in self.assignment.items()}, True
        self.fails.append(Failure(kind, label, detail, asg, exact, site))

    def _solve(self, formulas, use_pc, use_defs=True):
        s = z3.Solver()
        s.set("rlimit", self.rlimit)
        s.set("timeout", 20000)
        p = self.path
        if use_defs:
            for d in p.defs:
                s.add(to_z3(d))
        if use_pc:
            for c in p.pc:
                s.add(to_z3(c))
        for f in formulas:
            s.add(to_z3(f))
        t = time.time()
        r = s.check()
        self.stats.solver_calls += 1
        self.stats.solver_s += time.time() - t
        return r, s

    def prove(self, goal: Node, label, witness_truth=None, detail=""):
        """prove formula `goal` on the current path (ladder: witness, defs-only, full pc)"""
        st = self.stats
        st.goals += 1
        if goal is core.TRUE:
            st.goals_trivial += 1
            self.proved += 1
            return True
        p = self.path
        if witness_truth is False and p.exact:
            st.rung["witness"] += 1
            self._fail("mismatch", label, detail + " [witness of the path violates the goal]")
            return False
        neg = bnot(goal)
        r, s = self._solve([neg], use_pc=False)
        if r == z3.unsat:
            st.rung["defs"] += 1
            self.proved += 1
            return True
        r, s = self._solve([neg], use_pc=True)
        if r == z3.unsat:
            st.rung["pc"] += 1
            self.proved += 1
            return True
        if r == z3.sat:
            if os.environ.get("VERIF_DEBUG"):
                m = s.model()
                print("DEBUG sat model for", label, "\n  model:", sorted((str(d), str(m[d])) for d in m.decls())[:40])
                print("  defs:", [core.show(d, 8) for d in p.defs][:12])
                print("  pc:", [core.show(c, 5) for c in p.pc][:30])
            self._fail("mismatch", label, detail + " [solver model]", model=s.model())
            return False
        st.unknown += 1
        self.unknowns.append(f"{label}: goal unknown ({s.reason_unknown()})")
        return False

    def true(self, cond, label, detail=""):
        """`cond` must hold on every path"""
        if self.sym:
            if isinstance(cond, SymBool):
                return self.prove(cond.f, label, cond.v, detail)
            if isinstance(cond, (SymReal, SymInt)):
                return self.true(cond != 0, label, detail)
            self.stats.goals += 1
            self.stats.goals_trivial += 1
            if not cond:
                self._fail("mismatch", label, detail + " [concrete on this path]")
                return False
            self.proved += 1
            return True
        if not cond:
            self._fail("mismatch", label, detail)
            return False
        return True

    def eq(self, got, exp, label, exact=False):
        """element-wise equality of two scalars / arrays (NaN == NaN, inf == inf); exact=True: bit-for-bit in
        'conc' mode (no tolerance)"""
        ga, ea = _cells(got), _cells(exp)
        if ga.shape != ea.shape:
            self._fail("mismatch", label, f"shape {ga.shape} vs expected {ea.shape}")
            return False
        gl, el = ga.ravel().tolist(), ea.ravel().tolist()
        if self.sym:
            self.record.append((label, [core.sym_value(v) for v in gl]))
            return self._eq_sym(gl, el, label, ga.shape)
        self.record.append((label, gl))
        for i, (a, b) in enumerate(zip(gl, el)):
            if (not _close(a, b)) if not exact else (not _same(a, b)):
                self._fail("mismatch", label, f"cell {np.unravel_index(i, ga.shape) if ga.shape else ()}: got {a!r}, expected {b!r}")
                return False
        return True

    def _eq_sym(self, gl, el, label, shape):
        st = self.stats
        diffs = []
        wit_bad = None
        for i, (a, b) in enumerate(zip(gl, el)):
            st.goal_cells += 1
            if _isnan(a) or _isnan(b):
                if not (_isnan(a) and _isnan(b)):
                    self._fail("mismatch", label, f"cell {i}: got {a!r}, expected {b!r} (NaN mismatch)")
                    return False
                continue
            if _isinf(a) or _isinf(b):
                if not (_isinf(a) and _isinf(b) and a == b):
                    self._fail("mismatch", label, f"cell {i}: got {a!r}, expected {b!r} (inf mismatch)")
                    return False
                continue
            qa, qb = core.lift(a), core.lift(b)
            if qa is None or qb is None:
                if a is b or a == b:
                    continue
                self._fail("mismatch", label, f"cell {i}: got {a!r}, expected {b!r}")
                return False
            (an, ad, av), (bn, bd, bv) = qa, qb
            if core.is_const(an) and core.is_const(bn) and ad is None and bd is None:
                # two concrete numbers (computed in floating point along different operation orders): equal up
                # to rounding -- the reals model makes no claim about the last bits
                if _close(float(av), float(bv), 1e-9, 1e-12):
                    continue
            f = cmp("eq", core._mulq(an, bd), core._mulq(bn, ad))
            if f is core.TRUE:
                continue
            if av != bv and wit_bad is None:
                wit_bad = (i, a, b)
            diffs.append((i, f))
        if not diffs:
            st.goals += 1
            st.goals_trivial += 1
            self.proved += 1
            return True
        detail = ""
        if wit_bad is not None:
            i, a, b = wit_bad
            detail = f"cell {np.unravel_index(i, shape) if shape else ()}: got {a!r}, expected {b!r}"
        goal = band(*[f for _, f in diffs])
        return self.prove(goal, label, wit_bad is None, detail)

    # ------------------------------------------------------------------ calls
    def call(self, fn, label, allow=()):
        """run fn(); an exception not in `allow` is a failure of the obligation (kind exception:<T>)"""
        try:
            return True, fn()
        except allow as e:  # noqa
            return False, e
        except Exception as e:
            self._fail(f"exception:{type(e).__name__}", label, f"{type(e).__name__}: {e}"[:300], site=_site_of(e))
            return False, e

    def raises(self, fn, label, exc=Exception):
        """fn() must raise (an ill-formed request is rejected, not answered)"""
        try:
            r = fn()
        except exc as e:
            self.record.append((label, ["raised"]))
            if self.sym:
                self.stats.goals += 1
                self.stats.goals_trivial += 1
                self.proved += 1
            return e
        self._fail("no-exception", label, f"returned {type(r).__name__} instead of raising")
        return None


def _default(seed, name, sort):
    import hashlib
    h = int.from_bytes(hashlib.sha256(f"{seed}:{name}".encode()).digest()[:4], "big")
    if sort == "I":
        return h
    num = (h % 9) + 1
    den = ((h >> 8) % 3) + 1
    sign = -1 if (h >> 16) & 1 else 1
    return Fraction(sign * num, den)


def _cells(x):
    """anything -> ndarray (object or numeric) of scalar cells"""
    import pyttb as ttb
    if isinstance(x, (ttb.tensor, ttb.tenmat)):
        return np.asarray(x.data)
    if isinstance(x, np.ndarray):
        return x
    if isinstance(x, (list, tuple)):
        a = np.empty(len(x), dtype=object)
        for i, v in enumerate(x):
            a[i] = v
        return a
    a = np.empty((), dtype=object)
    a[()] = x
    return a


def _same(a, b):
    try:
        a, b = float(a), float(b)
    except (TypeError, ValueError):
        return a == b
    if math.isnan(a) or math.isnan(b):
        return math.isnan(a) and math.isnan(b)
    return a == b and math.copysign(1.0, a) == math.copysign(1.0, b)


def _close(a, b, rtol=1e-7, atol=1e-9):
    if isinstance(a, (bool, np.bool_)) or isinstance(b, (bool, np.bool_)):
        return bool(a) == bool(b)
    if isinstance(a, (complex, np.complexfloating)) and a.imag == 0:
        a = a.real
    if isinstance(b, (complex, np.complexfloating)) and b.imag == 0:
        b = b.real
    try:
        a = float(a)
        b = float(b)
    except (TypeError, ValueError):
        return a == b
    if math.isnan(a) or math.isnan(b):
        return math.isnan(a) and math.isnan(b)
    if math.isinf(a) or math.isinf(b):
        return a == b
    return abs(a - b) <= atol + rtol * max(abs(a), abs(b))


# ------------------------------------------------------------------------------------------
# environment stubs usable in both modes


class RngStub:
    """np.random replacement: every draw is an input of the obligation (symbolic in 'sym' mode, taken from
    the assignment in 'conc' mode), constrained only by the documented range.  Records draws and seeds."""

    def __init__(self, E, prefix="rng"):
        self.E = E
        self.prefix = prefix
        self.n = 0
        self.draws = []
        self.seeds = []

    def _one(self, lo, hi):
        name = f"{self.prefix}{self.n}"
        self.n += 1
        mid = None
        x = self.E.real(name, lo=lo, hi=hi, default=_default_in(self.E.seed, name, lo, hi))
        self.draws.append(x)
        return x

    def _arr(self, size, lo, hi):
        if size is None:
            return self._one(lo, hi)
        if isinstance(size, (int, np.integer)):
            size = (int(size),)
        size = tuple(int(s) for s in size)
        n = int(np.prod(size)) if size else 1
        vals = [self._one(lo, hi) for _ in range(n)]
        if self.E.sym:
            a = np.empty(n, dtype=object)
            for i, v in enumerate(vals):
                a[i] = v
            return npenv.wrap(a.reshape(size))  # C order like numpy's generators
        return np.array(vals, dtype=float).reshape(size)

    def uniform(self, low=0.0, high=1.0, size=None):
        return self._arr(size, low, high)

    def random_sample(self, size=None):
        return self._arr(size, 0.0, 1.0)

    random = random_sample

    def rand(self, *shape):
        return self._arr(shape if shape else None, 0.0, 1.0)

    def randn(self, *shape):
        return self._arr(shape if shape else None, None, None)

    def normal(self, loc=0.0, scale=1.0, size=None):
        return self._arr(size, None, None)

    def seed(self, s=None):
        self.seeds.append(s)

    def choice(self, a, size=None, replace=True, p=None):
        """indices drawn from range(a): symbolic integers (the solver enumerates them where an index is needed)"""
        n = int(a)
        k = 1 if size is None else int(size if not isinstance(size, (tuple, list)) else size[0])
        out = []
        for _ in range(k):
            name = f"{self.prefix}c{self.n}"
            self.n += 1
            x = self.E.int(name, 0, n - 1)
            self.draws.append(x)
            out.append(x)
        if not replace:
            for i in range(k):
                for j in range(i):
                    self.E.assume(out[i] != out[j])
        # plain integer arrays are indexed with the result: the solver enumerates the values here
        arr = np.array([int(x) for x in out], dtype=int)
        return arr[0] if size is None else arr

    def __getattr__(self, k):
        raise Unmodelled(f"np.random.{k} is not modelled by the RNG stub")


def _default_in(seed, name, lo, hi):
    d = _default(seed, name, "R")
    if lo is None or hi is None:
        return d
    frac = (abs(d) % 1) if abs(d) % 1 != 0 else Fraction(1, 3)
    return Fraction(lo) + frac * (Fraction(hi) - Fraction(lo))


import contextlib  # noqa: E402


@contextlib.contextmanager
def rng(E, prefix="rng"):
    """install an RngStub as np.random for the pyttb modules (sym) / for numpy itself (conc)"""
    stub = RngStub(E, prefix)
    if E.sym:
        old = npenv.fac.random
        npenv.fac.random = stub
        try:
            yield stub
        finally:
            npenv.fac.random = old
    else:
        names = ["uniform", "random_sample", "random", "rand", "randn", "normal", "seed", "choice"]
        saved = {k: getattr(np.random, k) for k in names}
        for k in names:
            setattr(np.random, k, getattr(stub, k))
        try:
            yield stub
        finally:
            for k, v in saved.items():
                setattr(np.random, k, v)


class EigStub:
    """contract stub for the symmetric / general eigen-solvers used by nvecs and hosvd.
    sym mode : records the matrix handed over and returns fresh symbolic (w, V) -- eigenvalues pairwise
               different in magnitude and non-zero ("well separated"), ascending for eigh/eigsh as documented;
    conc mode: calls the real solver, records argument and result."""

    def __init__(self, E, psd=False, trace_gt=None, exact2=False):
        self.E = E
        self.exact2 = exact2
        self.psd = psd
        self.trace_gt = trace_gt
        self.calls = []  # dicts: kind, A (cells), k, w, V

    def _fresh(self, kind, A, k):
        E = self.E
        n = int(np.shape(A)[0])
        m = n if k is None else int(k)
        c = len(self.calls)
        w = [E.real(f"ev{c}_{j}") for j in range(m)]
        if k is None and m >= 1 and self.psd:
            # a full decomposition preserves the trace: the last eigenvalue is *defined* as trace - (the others)
            # (no equality constraint, so witnesses stay rational)
            tr = 0.0
            for i in range(n):
                tr = tr + A[i, i]
            rest = 0.0
            for x in w[:-1]:
                rest = rest + x
            w[-1] = tr - rest
            if not isinstance(w[-1], SymReal):
                w[-1] = SymReal(core.rconst(core._frac(w[-1])), None, core._frac(w[-1]))
        for j in range(m):
            if not self.psd:
                E.assume(w[j] != 0)
            for i in range(j):
                E.assume((w[i] != w[j]) & (w[i] != -w[j]))
        if kind in ("eigh", "eigsh"):
            for j in range(m - 1):
                E.assume(w[j] < w[j + 1])
        if self.psd:
            for j in range(m):
                E.assume(w[j] >= 0)  # Gram matrices are positive semi-definite
        if k is None and self.psd:
            if self.trace_gt is not None:
                E.assume(tr > self.trace_gt)
            # ... and, on request, the determinant (n == 2): together with trace and order it determines the
            # eigenvalues, so that a solver model carries the true spectrum of its matrix and replays
            if self.exact2 and n == 2:
                E.assume_eq(w[0] * w[1], A[0, 0] * A[1, 1] - A[0, 1] * A[1, 0])
        V = E.reals(f"evec{c}_", (n, m))
        return npenv.obj_array(w), V

    def _call(self, kind, real_fn, A, k=None, **kw):
        if hasattr(A, "toarray"):
            Ad = A.toarray()
        else:
            Ad = A
        concrete = not any(core.is_sym(v) and not (isinstance(v, SymReal) and v.is_constant()) for v in np.asarray(Ad, dtype=object).ravel().tolist())
        if self.E.sym and concrete:
            # a concrete matrix: the real solver answers (its result is re-wrapped for the symbolic world)
            Af = np.array([[float(core.sym_value(v)) for v in row] for row in np.asarray(Ad, dtype=object).tolist()], dtype=float)
            w, V = real_fn(Af, k, **kw) if k is not None else real_fn(Af, **kw)
            if np.iscomplexobj(w) and np.all(np.imag(w) == 0) and np.all(np.imag(V) == 0):
                w, V = np.real(w), np.real(V)
            w, V = npenv.obj_array(np.asarray(w, dtype=float)), npenv.obj_array(np.asarray(V, dtype=float))
        elif self.E.sym:
            w, V = self._fresh(kind, Ad, k)
        else:
            w, V = real_fn(A, k, **kw) if k is not None else real_fn(A, **kw)
            if np.iscomplexobj(w) and np.all(np.imag(w) == 0) and np.all(np.imag(V) == 0):
                w, V = np.real(w), np.real(V)
            if kind in ("eig", "eigs"):
                # the order in which a general eigen-solver returns its pairs is not part of its contract:
                # when replaying a solver model, give the real pairs the relative order of the model's
                c = len(self.calls)
                m = len(w)
                model = [self.E.assignment.get(f"ev{c}_{j}") for j in range(m)]
                if all(v is not None for v in model):
                    want_rank = np.argsort(np.argsort([-abs(float(Fraction(v))) for v in model]))
                    have = np.argsort(-np.abs(w))  # indices of real pairs by decreasing magnitude
                    perm = [have[want_rank[j]] for j in range(m)]
                    w, V = w[perm], V[:, perm]
        from . import oracles
        self.calls.append(dict(kind=kind, A=oracles.cells(np.asarray(Ad)), k=k, w=[x for x in np.asarray(w).tolist()], V=oracles.cells(np.asarray(V))))
        return w, V


@contextlib.contextmanager
def eig(E, psd=False, trace_gt=None, exact2=False):
    """install the eigen-solver stub into the pyttb modules (sym) / wrap the real solvers (conc)"""
    import scipy.linalg
    import scipy.sparse.linalg
    import types
    stub = EigStub(E, psd, trace_gt, exact2)
    real = dict(eigh=scipy.linalg.eigh, eig=scipy.linalg.eig, eigsh=scipy.sparse.linalg.eigsh, eigs=scipy.sparse.linalg.eigs)
    fake = types.SimpleNamespace(
        linalg=types.SimpleNamespace(eigh=lambda A, **kw: stub._call("eigh", real["eigh"], A, **kw),
                                     eig=lambda A, **kw: stub._call("eig", real["eig"], A, **kw)),
        sparse=types.SimpleNamespace(linalg=types.SimpleNamespace(
            eigsh=lambda A, k=6, **kw: stub._call("eigsh", real["eigsh"], A, k, **kw),
            eigs=lambda A, k=6, **kw: stub._call("eigs", real["eigs"], A, k, **kw))))
    saved = []
    for m in npenv.pyttb_modules():
        if "scipy" in m.__dict__:
            saved.append((m, m.__dict__["scipy"]))
            m.__dict__["scipy"] = fake
    try:
        yield stub
    finally:
        for m, old in saved:
            m.__dict__["scipy"] = old


class NvecsStub:
    """contract stub one level up: <tensor>.nvecs(n, r) returns a fresh symbolic size x r matrix (orthonormal by
    contract) in 'sym' mode and the real result in 'conc' mode; every request (tensor cells, n, r) is recorded."""

    def __init__(self, E):
        self.E = E
        self.calls = []


@contextlib.contextmanager
def nvecs_stub(E):
    import pyttb as ttb
    from . import oracles
    stub = NvecsStub(E)
    real = ttb.tensor.nvecs

    def fake(self, n, r, flipsign=True):
        c = len(stub.calls)
        if E.sym:
            V = E.reals(f"nv{c}_", (self.shape[n], int(r)))
        else:
            V = real(self, n, r, flipsign)
        stub.calls.append(dict(cells=oracles.cells(self.data), n=int(n), r=int(r), V=V))
        return V

    ttb.tensor.nvecs = fake
    try:
        yield stub
    finally:
        ttb.tensor.nvecs = real


class SolveStub:
    def __init__(self, E):
        self.E = E
        self.calls = []


@contextlib.contextmanager
def solve_stub(E):
    """opaque numerics for np.linalg.solve: 'sym' mode returns a fresh symbolic solution and records the system
    handed over; 'conc' mode records the system and the real solution."""
    from . import oracles
    stub = SolveStub(E)
    real = np.linalg.solve

    def rec(A, B, Z):
        stub.calls.append(dict(A=oracles.cells(np.asarray(A)), B=oracles.cells(np.asarray(B)), Z=Z))

    if E.sym:
        def fake(A, B):
            c = len(stub.calls)
            Z = E.reals(f"sol{c}_", np.shape(B))
            rec(A, B, Z)
            return Z
        old = npenv.SOLVE_HOOK[0]
        npenv.SOLVE_HOOK[0] = fake
        try:
            yield stub
        finally:
            npenv.SOLVE_HOOK[0] = old
    else:
        def wrapped(A, B):
            Z = real(A, B)
            rec(A, B, Z)
            return Z
        np.linalg.solve = wrapped
        try:
            yield stub
        finally:
            np.linalg.solve = real


@contextlib.contextmanager
def log_stub(E):
    """opaque logarithm: every np.log(x) inside pyttb returns fresh symbols and records its argument ('sym');
    the real logarithm, recorded ('conc').  Argument equality is then decided in the reals."""
    calls = []
    if E.sym:
        old = npenv.fac.log

        def fake(x, *a, **k):
            arr = np.asarray(x, dtype=object)
            flat = arr.ravel().tolist()
            outs = []
            for v in flat:
                r = E.real(f"log{len(calls)}")
                calls.append((v, r))
                outs.append(r)
            if arr.ndim == 0:
                return outs[0]
            return npenv.obj_array(outs).reshape(arr.shape)
        npenv.fac.log = fake
        try:
            yield calls
        finally:
            npenv.fac.log = old
    else:
        real = np.log

        def wrapped(x, *a, **k):
            r = real(x, *a, **k)
            for v, y in zip(np.asarray(x, dtype=float).ravel().tolist(), np.asarray(r, dtype=float).ravel().tolist()):
                calls.append((v, y))
            return r
        import sys
        mod = sys.modules["pyttb.cp_apr"]
        oldnp = mod.np

        class _NP:
            def __getattr__(self, k):
                return wrapped if k == "log" else getattr(oldnp, k)
        mod.np = _NP()
        try:
            yield calls
        finally:
            mod.np = oldnp
