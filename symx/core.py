"""symx.core -- symbolic scalars for concolic execution of the real pyttb code.

Terms are hash-consed DAG nodes (`Node`) that are turned into z3 terms only
when a solver query needs them.  Every symbolic scalar also carries its exact
value (a `Fraction`, `int` or `bool`) under the *witness* assignment of the
path being executed, so that branch conditions are evaluated without a solver
call; the solver is asked for the sides the witness does not take (explore.py)
and for the goals (prove.py).

SymReal  = rational function  n/d  of Real terms  (+ exact value)
SymBool  = formula            (+ truth value)
SymInt   = Int term           (+ int value)
"""
from __future__ import annotations

import math
from fractions import Fraction

import numpy as np
import z3

# --------------------------------------------------------------------------
# control-flow signals (BaseException so that pyttb's `except Exception`
# cannot swallow them)


class Abort(BaseException):
    """Drop the current path (infeasible under assumptions / cut)."""


class Mismatch(BaseException):
    """Witness does not follow the forced decision prefix."""


class Unmodelled(BaseException):
    """An operation the substrate does not model: obligation inconclusive."""


class Cut(BaseException):
    """Harness-requested early end of an execution (carries a payload)."""

    def __init__(self, payload=None):
        self.payload = payload


# --------------------------------------------------------------------------
# hash-consed term nodes

_TABLE: dict = {}
_UID = [0]


class Node:
    __slots__ = ("op", "args", "sort", "uid", "z", "__weakref__")

    def __init__(self, op, args, sort):
        self.op = op
        self.args = args
        self.sort = sort
        _UID[0] += 1
        self.uid = _UID[0]
        self.z = None

    def __repr__(self):
        return show(self)


def mk(op, args, sort):
    key = (op, sort) + tuple(a.uid if isinstance(a, Node) else a for a in args)
    n = _TABLE.get(key)
    if n is None:
        n = Node(op, args, sort)
        _TABLE[key] = n
    return n


def reset_table():
    _TABLE.clear()


def rconst(q) -> Node:
    return mk("const", (Fraction(q),), "R")


def iconst(i) -> Node:
    return mk("const", (int(i),), "I")


TRUE = mk("true", (), "B")
FALSE = mk("false", (), "B")
R0 = rconst(0)
R1 = rconst(1)


def bconst(b):
    return TRUE if b else FALSE


def var(name, sort="R") -> Node:
    return mk("var", (name,), sort)


def is_const(n):
    return n.op == "const"


def cval(n):
    return n.args[0]


def toreal(n):
    if n.sort == "R":
        return n
    if is_const(n):
        return rconst(cval(n))
    return mk("toreal", (n,), "R")


def _arith(op, a, b):
    """binary arithmetic with constant folding; a, b same sort"""
    s = a.sort
    if is_const(a) and is_const(b):
        x, y = cval(a), cval(b)
        r = x + y if op == "add" else x - y if op == "sub" else x * y
        return rconst(r) if s == "R" else iconst(r)
    if op == "add":
        if is_const(a) and cval(a) == 0:
            return b
        if is_const(b) and cval(b) == 0:
            return a
        if a.uid > b.uid:
            a, b = b, a
    elif op == "sub":
        if is_const(b) and cval(b) == 0:
            return a
        if a is b:
            return rconst(0) if s == "R" else iconst(0)
        if is_const(a) and cval(a) == 0:
            return neg(b)
    else:
        for x, y in ((a, b), (b, a)):
            if is_const(x):
                if cval(x) == 0:
                    return x
                if cval(x) == 1:
                    return y
                if cval(x) == -1:
                    return neg(y)
        if a.uid > b.uid:
            a, b = b, a
    return mk(op, (a, b), s)


def add(a, b):
    return _arith("add", a, b)


def sub(a, b):
    return _arith("sub", a, b)


def mul(a, b):
    return _arith("mul", a, b)


def neg(a):
    if is_const(a):
        return rconst(-cval(a)) if a.sort == "R" else iconst(-cval(a))
    if a.op == "neg":
        return a.args[0]
    return mk("neg", (a,), a.sort)


_CMP = {
    "lt": lambda x, y: x < y,
    "le": lambda x, y: x <= y,
    "eq": lambda x, y: x == y,
}


def cmp(op, a, b):
    """op in lt, le, gt, ge, eq, ne -> formula node (normalised to lt/le/eq + not)"""
    if a.sort != b.sort:
        a, b = toreal(a), toreal(b)
    if op == "gt":
        return cmp("lt", b, a)
    if op == "ge":
        return cmp("le", b, a)
    if op == "ne":
        return bnot(cmp("eq", a, b))
    if is_const(a) and is_const(b):
        return bconst(_CMP[op](cval(a), cval(b)))
    if a is b:
        return bconst(op != "lt")
    if op in ("le", "lt") and a.sort == "R":
        # comparisons with 0 decided by structure (squares, sums of squares, roots)
        if is_const(a) and cval(a) == 0:
            sg = structural_sign(b)
            if sg == "+" or (sg in ("0+", "0") and op == "le"):
                return TRUE
            if sg == "-" or (sg in ("0-", "0") and op == "lt"):
                return FALSE
        elif is_const(b) and cval(b) == 0:
            sg = structural_sign(a)
            if sg == "-" or (sg in ("0-", "0") and op == "le"):
                return TRUE
            if sg == "+" or (sg in ("0+", "0") and op == "lt"):
                return FALSE
    if op == "eq" and a.uid > b.uid:
        a, b = b, a
    return mk(op, (a, b), "B")


def bnot(a):
    if a is TRUE:
        return FALSE
    if a is FALSE:
        return TRUE
    if a.op == "not":
        return a.args[0]
    return mk("not", (a,), "B")


def band(*xs):
    out = []
    for x in xs:
        if x is FALSE:
            return FALSE
        if x is TRUE:
            continue
        out.append(x)
    if not out:
        return TRUE
    if len(out) == 1:
        return out[0]
    return mk("and", tuple(out), "B")


def bor(*xs):
    out = []
    for x in xs:
        if x is TRUE:
            return TRUE
        if x is FALSE:
            continue
        out.append(x)
    if not out:
        return FALSE
    if len(out) == 1:
        return out[0]
    return mk("or", tuple(out), "B")


def bxor(a, b):
    if a.op in ("true", "false") and b.op in ("true", "false"):
        return bconst((a is TRUE) != (b is TRUE))
    return mk("xor", (a, b), "B")


def ite(c, a, b):
    if c is TRUE:
        return a
    if c is FALSE:
        return b
    return mk("ite", (c, a, b), a.sort)


# --------------------------------------------------------------------------
# conversion to z3 (memoised on the node)

_UF: dict = {}


def _uf(name, arity):
    k = (name, arity)
    if k not in _UF:
        _UF[k] = z3.Function(name, *([z3.RealSort()] * arity), z3.RealSort())
    return _UF[k]


def to_z3(root: Node):
    if root.z is not None:
        return root.z
    stack = [root]
    while stack:
        n = stack[-1]
        if n.z is not None:
            stack.pop()
            continue
        pending = [a for a in n.args if isinstance(a, Node) and a.z is None]
        if pending:
            stack.extend(pending)
            continue
        stack.pop()
        n.z = _conv(n)
    return root.z


def to_z3_abstract(root: Node, cache: dict):
    """over-approximation: every product of two non-constant terms becomes a fresh real (one per node, so equal
    products stay equal).  unsat of the abstraction implies unsat of the original; nothing else is concluded."""
    stack = [root]
    while stack:
        n = stack[-1]
        if n.uid in cache:
            stack.pop()
            continue
        if n.op == "mul" and not is_const(n.args[0]) and not is_const(n.args[1]):
            cache[n.uid] = z3.Real(f"abs!{n.uid}")
            stack.pop()
            continue
        pending = [a for a in n.args if isinstance(a, Node) and a.uid not in cache]
        if pending:
            stack.extend(pending)
            continue
        stack.pop()
        cache[n.uid] = _conv(n, lambda x: cache[x.uid])
    return cache[root.uid]


def _conv(n, z=None):
    if z is not None:
        class _A:  # argument view whose .z is looked up in the caller's cache
            __slots__ = ("n",)

            def __init__(self, n):
                self.n = n

            @property
            def z(self):
                return z(self.n)
        op = n.op
        a = tuple(_A(x) if isinstance(x, Node) else x for x in n.args)
    else:
        op = n.op
        a = n.args
    if op == "const":
        v = a[0]
        if n.sort == "I":
            return z3.IntVal(v)
        return z3.RealVal(v.numerator) if v.denominator == 1 else z3.Q(v.numerator, v.denominator)
    if op == "var":
        return z3.Real(a[0]) if n.sort == "R" else z3.Int(a[0]) if n.sort == "I" else z3.Bool(a[0])
    if op == "add":
        return a[0].z + a[1].z
    if op == "sub":
        return a[0].z - a[1].z
    if op == "mul":
        return a[0].z * a[1].z
    if op == "neg":
        return -a[0].z
    if op == "lt":
        return a[0].z < a[1].z
    if op == "le":
        return a[0].z <= a[1].z
    if op == "eq":
        return a[0].z == a[1].z
    if op == "not":
        return z3.Not(a[0].z)
    if op == "and":
        return z3.And(*[x.z for x in a])
    if op == "or":
        return z3.Or(*[x.z for x in a])
    if op == "xor":
        return z3.Xor(a[0].z, a[1].z)
    if op == "ite":
        return z3.If(a[0].z, a[1].z, a[2].z)
    if op == "true":
        return z3.BoolVal(True)
    if op == "false":
        return z3.BoolVal(False)
    if op == "toreal":
        return z3.ToReal(a[0].z)
    if op == "toint":  # floor
        return z3.ToInt(a[0].z)
    if op == "idiv":
        return a[0].z / a[1].z
    if op == "imod":
        return a[0].z % a[1].z
    if op == "uf":
        return _uf(a[0], len(a) - 1)(*[x.z for x in a[1:]])
    raise Unmodelled(f"to_z3: {op}")


def show(n, depth=6):
    if depth == 0:
        return "..."
    op, a = n.op, n.args
    if op == "const":
        return str(a[0])
    if op == "var":
        return a[0]
    if op in ("true", "false"):
        return op
    sym = {"add": "+", "sub": "-", "mul": "*", "lt": "<", "le": "<=", "eq": "=="}.get(op)
    if sym:
        return f"({show(a[0], depth-1)} {sym} {show(a[1], depth-1)})"
    if op == "uf":
        return f"{a[0]}({', '.join(show(x, depth-1) for x in a[1:])})"
    return f"{op}({', '.join(show(x, depth-1) for x in a)})"


def node_vars(root: Node, acc=None):
    """set of var/uf leaf nodes below root"""
    acc = {} if acc is None else acc
    seen = set()
    stack = [root]
    while stack:
        n = stack.pop()
        if n.uid in seen:
            continue
        seen.add(n.uid)
        if n.op == "var":
            acc[n.args[0]] = n
        for x in n.args:
            if isinstance(x, Node):
                stack.append(x)
    return acc


_SIGN_MEMO = {}


def structural_sign(n: Node):
    """'+' (>0), '0+' (>=0), '-' , '0-', '0', or None (unknown), from structure."""
    r = _SIGN_MEMO.get(n.uid, 0)
    if r != 0:
        return r
    r = _structural_sign(n)
    _SIGN_MEMO[n.uid] = r
    return r


def _structural_sign(n: Node):
    op = n.op
    if op == "const":
        v = cval(n)
        return "+" if v > 0 else "-" if v < 0 else "0"
    if op == "var":
        name = n.args[0]
        if name.startswith("sqrt!") or name.startswith("root!"):
            return "0+"
        if name in POSVARS:
            return "+"
        return None
    if op == "mul":
        a, b = n.args
        if a is b:
            return "0+"
        sa, sb = structural_sign(a), structural_sign(b)
        if sa is None or sb is None:
            return None
        if "0" == sa or "0" == sb:
            return "0"
        neg_ = (sa[-1] == "-") != (sb[-1] == "-")
        strict = len(sa) == 1 and len(sb) == 1
        return ("" if strict else "0") + ("-" if neg_ else "+")
    if op == "add":
        sa, sb = structural_sign(n.args[0]), structural_sign(n.args[1])
        if sa is None or sb is None:
            return None
        if sa == "0":
            return sb
        if sb == "0":
            return sa
        if sa[-1] != sb[-1]:
            return None
        strict = len(sa) == 1 or len(sb) == 1
        return ("" if strict else "0") + sa[-1]
    if op == "neg":
        s = structural_sign(n.args[0])
        if s is None or s == "0":
            return s
        return s[:-1] + ("-" if s[-1] == "+" else "+")
    return None


# --------------------------------------------------------------------------
# the current path (set by explore.Explorer while a harness function runs)

CUR = None


def cur():
    if CUR is None:
        raise RuntimeError("symbolic value used outside of an exploration")
    return CUR


# --------------------------------------------------------------------------
# symbolic scalars


def _is_num(o):
    return isinstance(o, (int, float, Fraction, np.integer, np.floating, bool, np.bool_))


def _frac(o):
    if isinstance(o, (bool, np.bool_)):
        return Fraction(int(o))
    if isinstance(o, (int, np.integer)):
        return Fraction(int(o))
    if isinstance(o, Fraction):
        return o
    f = float(o)
    if math.isnan(f) or math.isinf(f):
        raise _NonFinite(f)
    return snap(f)


class _NonFinite(Exception):
    def __init__(self, f):
        self.f = f


_SNAP = {}


def snap(f: float) -> Fraction:
    """the real number a concrete float stands for in the reals model: the simplest rational with
    denominator <= 10^6 if it is within 2^-50 (relative) of the float -- so that 8/24 computed in floating
    point is 1/3 and not 6004799503160661/18014398509481984 -- else the float's exact binary value."""
    r = _SNAP.get(f)
    if r is None:
        fr = Fraction(f)
        s = fr.limit_denominator(10**6)
        r = s if abs(s - fr) <= abs(fr) * Fraction(1, 2**50) else fr
        if len(_SNAP) < 100000:
            _SNAP[f] = r
    return r


def lift(o):
    """-> (n, d|None, value) or None"""
    if isinstance(o, SymReal):
        return o.n, o.d, o.v
    if isinstance(o, SymInt):
        return toreal(o.e), None, Fraction(o.v)
    if isinstance(o, SymBool):
        return ite(o.f, R1, R0), None, Fraction(int(o.v))
    if _is_num(o):
        q = _frac(o)
        return rconst(q), None, q
    return None


def _mulq(a, b):
    if a is None:
        return b
    if b is None:
        return a
    return mul(a, b)


POSVARS = set()  # names of variables assumed > 0 (canonical mode only; see symx/poly.py)


def mkreal(n, d, v):
    """normalise: constant denominators folded away"""
    if _poly.ON[0] and not is_const(n):
        r = _poly.canon(n, d)
        if r is not None:
            n, d = r
    if d is not None and is_const(d):
        c = cval(d)
        n = mul(n, rconst(1 / c))
        d = None
    if d is None and is_const(n):
        pass
    return SymReal(n, d, v)


class SymReal:
    __slots__ = ("n", "d", "v")

    def __init__(self, n, d, v):
        self.n = n
        self.d = d
        self.v = v

    # --- arithmetic
    def _addsub(self, o, sign, rev):
        try:
            q = lift(o)
        except _NonFinite as e:
            return _nonfinite_arith(self, e.f, "add" if sign > 0 else ("rsub" if not rev else "sub"))
        if q is None:
            return NotImplemented
        a = (self.n, self.d, self.v)
        b = q
        if rev:
            a, b = b, a
        (an, ad, av), (bn, bd, bv) = a, b
        f = add if sign > 0 else sub
        v = av + bv if sign > 0 else av - bv
        if ad is None and bd is None:
            return mkreal(f(an, bn), None, v)
        if ad is bd:
            return mkreal(f(an, bn), ad, v)
        return mkreal(f(_mulq(an, bd), _mulq(bn, ad)), _mulq(ad, bd), v)

    def __add__(self, o):
        return self._addsub(o, 1, False)

    def __radd__(self, o):
        return self._addsub(o, 1, True)

    def __sub__(self, o):
        return self._addsub(o, -1, False)

    def __rsub__(self, o):
        return self._addsub(o, -1, True)

    def __mul__(self, o):
        try:
            q = lift(o)
        except _NonFinite as e:
            return _nonfinite_arith(self, e.f, "mul")
        if q is None:
            return NotImplemented
        bn, bd, bv = q
        if self.n is bn and self.d is None and bd is None and self.n.op == "var" and self.n.args[0].startswith("root!2!"):
            x = cur().roots.get(self.n.args[0])
            if x is not None:
                return x  # sqrt(x) * sqrt(x) -> x   (x >= 0 was decided when the root was introduced)
        n, d = mul(self.n, bn), _mulq(self.d, bd)
        if d is not None and n is d:
            return SymReal(R1, None, self.v * bv)
        return mkreal(n, d, self.v * bv)

    __rmul__ = __mul__

    def __truediv__(self, o):
        try:
            q = lift(o)
        except _NonFinite as e:
            return _nonfinite_arith(self, e.f, "div")
        if q is None:
            return NotImplemented
        return fdiv((self.n, self.d, self.v), q)

    def __rtruediv__(self, o):
        try:
            q = lift(o)
        except _NonFinite as e:
            return _nonfinite_arith(self, e.f, "rdiv")
        if q is None:
            return NotImplemented
        return fdiv(q, (self.n, self.d, self.v))

    def __neg__(self):
        return SymReal(neg(self.n), self.d, -self.v)

    def __pos__(self):
        return self

    def __abs__(self):
        return self if bool(self >= 0) else -self

    def __pow__(self, o):
        if isinstance(o, SymReal) and is_const(o.n) and o.d is None:
            o = o.v
        if isinstance(o, (float, np.floating, Fraction)) and o == int(o):
            o = int(o)
        if isinstance(o, (int, np.integer)):
            o = int(o)
            if o >= 0:
                r = SymReal(R1, None, Fraction(1))
                for _ in range(o):
                    r = r * self
                return r
            return 1 / (self ** (-o))
        if isinstance(o, (float, np.floating)) and o == 0.5:
            return self.sqrt()
        if isinstance(o, Fraction) and o.numerator == 1 and o.denominator > 0:
            return nthroot(self, o.denominator)
        if isinstance(o, (float, np.floating)):
            fo = Fraction(o).limit_denominator(64)
            if fo.numerator == 1 and abs(float(fo) - o) < 1e-15:
                return nthroot(self, fo.denominator)
        return cur().hooks.pow(self, o)

    def __rpow__(self, o):
        return cur().hooks.pow(o, self)

    # --- comparisons
    def _cmp(self, o, op):
        try:
            q = lift(o)
        except _NonFinite as e:
            f = e.f
            if math.isnan(f):
                return op == "ne"
            pos = f > 0
            return {"lt": pos, "le": pos, "gt": not pos, "ge": not pos, "eq": False, "ne": True}[op]
        if q is None:
            return NotImplemented
        bn, bd, bv = q
        an, ad, av = self.n, self.d, self.v
        val = {"lt": av < bv, "le": av <= bv, "gt": av > bv, "ge": av >= bv, "eq": av == bv, "ne": av != bv}[op]
        if ad is None and bd is None:
            return SymBool(cmp(op, an, bn), val)
        if ad is bd and op in ("eq", "ne"):
            return SymBool(cmp(op, an, bn), val)
        lhs, rhs = _mulq(an, bd), _mulq(bn, ad)
        if op in ("eq", "ne"):
            return SymBool(cmp(op, lhs, rhs), val)
        dd = _mulq(ad, bd)
        s = cur().sign_of(dd)
        if s == "+":
            return SymBool(cmp(op, lhs, rhs), val)
        if s == "-":
            return SymBool(cmp(op, rhs, lhs), val)
        # unknown sign: multiply both sides by dd^2 / (ad bd) = dd  -> lhs*dd ? rhs*dd
        return SymBool(cmp(op, mul(lhs, dd), mul(rhs, dd)), val)

    def __eq__(self, o):
        return self._cmp(o, "eq")

    def __ne__(self, o):
        return self._cmp(o, "ne")

    def __lt__(self, o):
        return self._cmp(o, "lt")

    def __le__(self, o):
        return self._cmp(o, "le")

    def __gt__(self, o):
        return self._cmp(o, "gt")

    def __ge__(self, o):
        return self._cmp(o, "ge")

    def __bool__(self):
        return bool(SymBool(cmp("ne", self.n, R0), self.v != 0))

    def __hash__(self):
        return hash((self.n.uid, None if self.d is None else self.d.uid))

    def __repr__(self):
        return f"<{show(self.n)}" + (f" / {show(self.d)}" if self.d is not None else "") + f" ~{float(self.v):.4g}>"

    def __format__(self, spec):
        return format(float(self.v), spec) if spec else repr(self)

    def __float__(self):
        if is_const(self.n) and self.d is None:
            return float(self.v)
        raise Unmodelled("float() of a symbolic real")

    def __int__(self):
        if is_const(self.n) and self.d is None:
            return int(self.v)
        return int(floor(self))

    def __index__(self):
        raise TypeError("symbolic real used as an index")

    def __round__(self, nd=None):
        raise Unmodelled("round() of a symbolic real")

    def __floor__(self):
        return floor(self)

    def __ceil__(self):
        return -floor(-self)

    # numpy object loops call these methods
    def conjugate(self):
        return self

    def sqrt(self):
        return nthroot(self, 2)

    def item(self):
        return self

    @property
    def real(self):
        return self

    @property
    def imag(self):
        return 0.0

    def exp(self):
        return cur().hooks.exp(self)

    def log(self):
        return cur().hooks.log(self)

    def is_constant(self):
        return is_const(self.n) and self.d is None

    # numpy hands back the bare object for 0-d results of object arrays where a float array would give a
    # numpy scalar: provide the scalar-like surface pyttb touches
    ndim = 0
    shape = ()
    size = 1

    def squeeze(self, *a, **k):
        return self

    def tofile(self, fid, sep="", format="%s"):
        from . import npenv
        npenv.write_tokens(fid, [self], sep or " ", format)

    def copy(self):
        return self

    def __getitem__(self, k):
        if k is None or k == () or k is Ellipsis:
            a = np.empty(1 if k is None else (), dtype=object)
            a[...] = self
            from . import npenv
            return npenv.wrap(a) if k is None else self
        raise IndexError("invalid index to scalar variable.")

    def eq_formula(self, o) -> Node:
        q = lift(o)
        return cmp("eq", _mulq(self.n, q[1]), _mulq(q[0], self.d))


def _nonfinite_arith(s, f, op):
    """symbolic (finite) value combined with a concrete nan/inf"""
    if math.isnan(f):
        return f
    if op in ("add",):
        return f
    if op == "sub":  # rev: f - s
        return f
    if op == "rsub":  # s - f
        return -f
    if op == "mul":
        if bool(s == 0):
            return float("nan")
        return f if bool(s > 0) else -f
    if op == "div":  # s / inf
        return 0.0
    if op == "rdiv":  # inf / s
        if bool(s == 0):
            return f  # numpy: inf/0 = inf (sign of zero ignored in the reals model)
        return f if bool(s > 0) else -f
    raise Unmodelled("non-finite arithmetic")


def fdiv(a, b):
    (an, ad, av), (bn, bd, bv) = a, b
    bzero = bool(SymBool(cmp("eq", bn, R0), bv == 0))
    if bzero:
        # IEEE corner values are concrete on the path that produces them
        if bool(SymBool(cmp("eq", an, R0), av == 0)):
            return float("nan")
        pos = bool(SymReal(an, ad, av) > 0)
        return float("inf") if pos else float("-inf")
    n = _mulq(an, bd)
    d = _mulq(ad, bn)
    if n is None:
        n = R1
    if d is n:
        return SymReal(R1, None, Fraction(1))
    if is_const(an) and cval(an) == 0:
        return SymReal(R0, None, Fraction(0))
    return mkreal(n, d, av / bv)


def iroot(n: int, k: int) -> int:
    """integer k-th root (nearest from below) in exact integer arithmetic: no float overflow for huge n"""
    if n < 2:
        return n
    if k == 2:
        return math.isqrt(n)
    hi = 1 << ((n.bit_length() + k - 1) // k)
    lo = 0
    while lo < hi:
        mid = (lo + hi + 1) // 2
        if mid**k <= n:
            lo = mid
        else:
            hi = mid - 1
    return lo


def nthroot(x: SymReal, k: int):
    """principal k-th root as a fresh variable with its definition in the defs store"""
    if x.is_constant():
        f = x.v
        if f >= 0:
            num = iroot(f.numerator, k)
            den = iroot(f.denominator, k)
            if num**k == f.numerator and den**k == f.denominator:
                return SymReal(rconst(Fraction(num, den)), None, Fraction(num, den))
    if not bool(x >= 0):
        if k % 2 == 0:
            raise ValueError("root of a negative number")  # numpy would give nan
        return -nthroot(-x, k)
    return cur().root_var(x, k)


def floor(x):
    if isinstance(x, SymInt):
        return x
    q = lift(x)
    n, d, v = q
    if d is None:
        e = mk("toint", (n,), "I") if not is_const(n) else iconst(math.floor(cval(n)))
        return SymInt(e, math.floor(v))
    # floor(n/d): introduce k with k <= n/d < k+1
    return cur().floor_var(SymReal(n, d, v))


class SymBool:
    __slots__ = ("f", "v")
    __array_priority__ = 1000

    def __init__(self, f, v):
        self.f = f
        self.v = bool(v)

    def __bool__(self):
        if self.f is TRUE:
            return True
        if self.f is FALSE:
            return False
        return cur().decide(self)

    @staticmethod
    def _lift(o):
        if isinstance(o, SymBool):
            return o.f, o.v
        if isinstance(o, SymReal):
            return cmp("ne", o.n, R0), o.v != 0
        if isinstance(o, SymInt):
            return cmp("ne", o.e, iconst(0)), o.v != 0
        if isinstance(o, (bool, np.bool_, int, float, np.number)):
            return bconst(bool(o)), bool(o)
        return None

    def __and__(self, o):
        q = SymBool._lift(o)
        if q is None:
            return NotImplemented
        return SymBool(band(self.f, q[0]), self.v and q[1])

    __rand__ = __and__

    def __or__(self, o):
        q = SymBool._lift(o)
        if q is None:
            return NotImplemented
        return SymBool(bor(self.f, q[0]), self.v or q[1])

    __ror__ = __or__

    def __xor__(self, o):
        q = SymBool._lift(o)
        if q is None:
            return NotImplemented
        return SymBool(bxor(self.f, q[0]), self.v != q[1])

    __rxor__ = __xor__

    def __invert__(self):
        return SymBool(bnot(self.f), not self.v)

    def logical_not(self):
        return ~self

    def _r(self):
        return SymReal(ite(self.f, R1, R0), None, Fraction(int(self.v)))

    def __add__(self, o):
        return self._r() + o

    __radd__ = __add__

    def __mul__(self, o):
        return self._r() * o

    __rmul__ = __mul__

    def __sub__(self, o):
        return self._r() - o

    def __rsub__(self, o):
        return o - self._r()

    def __eq__(self, o):
        q = SymBool._lift(o)
        if q is None:
            return NotImplemented
        return SymBool(bnot(bxor(self.f, q[0])), self.v == q[1])

    def __ne__(self, o):
        q = SymBool._lift(o)
        if q is None:
            return NotImplemented
        return SymBool(bxor(self.f, q[0]), self.v != q[1])

    def __hash__(self):
        return hash(self.f.uid)

    def __repr__(self):
        return f"<B {show(self.f)} ~{self.v}>"


class SymInt:
    __slots__ = ("e", "v")
    __array_priority__ = 1000

    def __init__(self, e, v):
        self.e = e
        self.v = int(v)

    @staticmethod
    def _o(o):
        if isinstance(o, SymInt):
            return o.e, o.v
        if isinstance(o, (bool, np.bool_)):
            return iconst(int(o)), int(o)
        if isinstance(o, (int, np.integer)):
            return iconst(int(o)), int(o)
        return None

    def _bin(self, o, op, rev=False):
        q = SymInt._o(o)
        if q is None:
            if isinstance(o, (float, np.floating, Fraction, SymReal)):
                r = SymReal(toreal(self.e), None, Fraction(self.v))
                return {"add": r.__add__, "sub": r.__rsub__ if rev else r.__sub__, "mul": r.__mul__}[op](o)
            return NotImplemented
        (ae, av), (be, bv) = (self.e, self.v), q
        if rev:
            (ae, av), (be, bv) = (be, bv), (ae, av)
        if op == "add":
            return SymInt(add(ae, be), av + bv)
        if op == "sub":
            return SymInt(sub(ae, be), av - bv)
        if op == "mul":
            return SymInt(mul(ae, be), av * bv)
        if op in ("idiv", "imod"):
            if not is_const(be):
                raise Unmodelled("division by a symbolic integer")
            if bv <= 0:
                raise Unmodelled("integer division by a non-positive constant")
            if is_const(ae):
                return SymInt(iconst(av // bv if op == "idiv" else av % bv), av // bv if op == "idiv" else av % bv)
            return SymInt(mk(op, (ae, be), "I"), av // bv if op == "idiv" else av % bv)
        raise Unmodelled(op)

    def __add__(self, o):
        return self._bin(o, "add")

    def __radd__(self, o):
        return self._bin(o, "add", True)

    def __sub__(self, o):
        return self._bin(o, "sub")

    def __rsub__(self, o):
        return self._bin(o, "sub", True)

    def __mul__(self, o):
        return self._bin(o, "mul")

    def __rmul__(self, o):
        return self._bin(o, "mul", True)

    def __floordiv__(self, o):
        return self._bin(o, "idiv")

    def __mod__(self, o):
        return self._bin(o, "imod")

    def __truediv__(self, o):
        return SymReal(toreal(self.e), None, Fraction(self.v)) / o

    def __rtruediv__(self, o):
        return o / SymReal(toreal(self.e), None, Fraction(self.v))

    def __neg__(self):
        return SymInt(neg(self.e), -self.v)

    def __pos__(self):
        return self

    def __abs__(self):
        return self if bool(self >= 0) else -self

    def _cmp(self, o, op):
        q = SymInt._o(o)
        if q is None:
            if isinstance(o, (float, np.floating, Fraction, SymReal)):
                return SymReal(toreal(self.e), None, Fraction(self.v))._cmp(o, op)
            return NotImplemented
        be, bv = q
        av = self.v
        val = {"lt": av < bv, "le": av <= bv, "gt": av > bv, "ge": av >= bv, "eq": av == bv, "ne": av != bv}[op]
        return SymBool(cmp(op, self.e, be), val)

    def __eq__(self, o):
        return self._cmp(o, "eq")

    def __ne__(self, o):
        return self._cmp(o, "ne")

    def __lt__(self, o):
        return self._cmp(o, "lt")

    def __le__(self, o):
        return self._cmp(o, "le")

    def __gt__(self, o):
        return self._cmp(o, "gt")

    def __ge__(self, o):
        return self._cmp(o, "ge")

    def __bool__(self):
        return bool(self != 0)

    def __hash__(self):
        return hash(self.e.uid)

    def __index__(self):
        if is_const(self.e):
            return self.v
        return cur().choose(self)

    __int__ = __index__

    def __float__(self):
        return float(self.__index__())

    def __repr__(self):
        return f"<i {show(self.e)} ~{self.v}>"

    def is_constant(self):
        return is_const(self.e)

    def item(self):
        return self

    def conjugate(self):
        return self


# --------------------------------------------------------------------------
# helpers used by harnesses


def sym_value(x):
    """exact value under the current witness of a scalar (symbolic or concrete)"""
    if isinstance(x, SymReal):
        return x.v
    if isinstance(x, SymInt):
        return x.v
    if isinstance(x, SymBool):
        return x.v
    return x


def is_sym(x):
    return isinstance(x, (SymReal, SymInt, SymBool))


from . import poly as _poly  # noqa: E402  (poly imports core)
