"""symx.explore -- concolic re-execution DFS over the branch decisions of a harness.

Each path carries a witness (exact rational assignment).  A decision follows
the side the witness satisfies (no solver call); the other side is queued and
resolved by z3 when popped: `sat` -> new witness, `unsat` -> closed,
otherwise the side is *undecided* and the obligation becomes inconclusive.
"""
from __future__ import annotations

import hashlib
import math
import os
import time
from fractions import Fraction

import z3

from . import core
from .core import (Abort, Mismatch, Node, SymBool, SymInt, SymReal, Unmodelled,
                   band, bnot, cmp, iconst, mk, mul, rconst, to_z3, var)


class Budget(BaseException):
    pass


def _hkey(forced):
    """hashable form of a forced decision prefix (choose decisions carry a list of excluded values)"""
    return tuple((fk[0], tuple(fk[1]), fk[2]) if fk[0] == "c" else tuple(fk) for fk in forced)


class AssumeFail(BaseException):
    def __init__(self, f, pclen):
        self.f = f
        self.pclen = pclen


class Hooks:
    """transcendental functions: uninterpreted, axioms instantiated per use"""

    def __init__(self, path):
        self.path = path

    def _uf(self, name, args, approx):
        p = self.path
        nodes = []
        for a in args:
            n, d, v = core.lift(a)
            if d is not None:
                # keep argument as a single term n/d via fresh var? use a division-free key:
                # introduce a var q with q*d == n (definition)
                q = p.quot_var(SymReal(n, d, v))
                n = q.n
            nodes.append(n)
        node = mk("uf", (name,) + tuple(nodes), "R")
        key = f"uf!{node.uid}"
        if key in p.assign:
            val = p.assign[key]
        else:
            val = Fraction(approx).limit_denominator(10**9)
            p.assign[key] = val
        p.exact = False
        p.ufapps[key] = node
        return SymReal(node, None, val)

    def log(self, x):
        if not isinstance(x, SymReal):
            return math.log(x)
        if x.is_constant() and x.v == 1:
            return 0.0
        if not bool(x > 0):
            if bool(x == 0):
                return float("-inf")
            return float("nan")
        r = self._uf("log", [x], math.log(float(x.v)))
        return r

    def exp(self, x):
        if not isinstance(x, SymReal):
            return math.exp(x)
        if x.is_constant() and x.v == 0:
            return 1.0
        r = self._uf("exp", [x], math.exp(float(x.v)))
        self.path.pc.append(cmp("lt", core.R0, r.n))
        return r

    def pow(self, b, e):
        bv, ev = core.sym_value(b), core.sym_value(e)
        if isinstance(b, SymReal) and not bool(b > 0):
            raise Unmodelled("pow with non-positive symbolic base")
        r = self._uf("pow", [b, e], float(bv) ** float(ev))
        self.path.pc.append(cmp("lt", core.R0, r.n))
        return r


class Path:
    def __init__(self, ex, forced, assign):
        self.ex = ex
        self.forced = forced
        self.assign = dict(assign)
        self.trace = []  # (kind, formula/SymInt node, taken, pclen)
        self.pc = []
        self.defs = []
        self.known = {}
        self.exact = True
        self.hooks = Hooks(self)
        self.ufapps = {}
        self.notes = []
        self.generic_excluded = []
        self.draws = []  # environment draws (rng, eig...) recorded by stand-ins
        self.roots = {}
        self.nonneg_hints = []  # Nodes the harness declares to be sums of squares (sign certificates)
        self.counter = {}

    # ---- inputs
    def default_value(self, name, sort):
        h = int.from_bytes(hashlib.sha256(f"{self.ex.seed}:{name}".encode()).digest()[:4], "big")
        if sort == "I":
            return h % 3
        num = (h % 9) + 1
        den = ((h >> 8) % 3) + 1
        sign = -1 if (h >> 16) & 1 else 1
        return Fraction(sign * num, den)

    def fresh_real(self, name, default=None):
        if name not in self.assign:
            self.assign[name] = self.default_value(name, "R") if default is None else Fraction(default)
        return SymReal(var(name, "R"), None, Fraction(self.assign[name]))

    def fresh_int(self, name, default=None):
        if name not in self.assign:
            self.assign[name] = self.default_value(name, "I") if default is None else int(default)
        return SymInt(var(name, "I"), int(self.assign[name]))

    def uniq(self, prefix):
        k = self.counter.get(prefix, 0)
        self.counter[prefix] = k + 1
        return f"{prefix}{k}"

    # ---- decisions
    def assume(self, b):
        """constrain inputs (placed before the code they constrain)"""
        if not isinstance(b, SymBool):
            if not b:
                raise Abort()
            return
        if not b.v:
            if (_hkey(self.forced), b.f.uid) in self.ex._lenient:
                # the solver's witness is an algebraic point that was rounded: keep the constraint in the
                # path condition and go on with the approximate witness (the path is marked inexact)
                self.exact = False
                self.pc.append(b.f)
                self.known[b.f.uid] = True
                return
            # the witness violates the assumption: ask the solver for one that satisfies it (same prefix)
            raise AssumeFail(b.f, len(self.pc))
        self.pc.append(b.f)
        self.known[b.f.uid] = True

    def assume_formula(self, f: Node):
        self.pc.append(f)

    def decide(self, b: SymBool) -> bool:
        f = b.f
        k = self.known.get(f.uid)
        if k is not None:
            return k
        taken = b.v
        if self.ex.generic and _is_nonlinear_eq(f) is not None:
            want = _is_nonlinear_eq(f)  # side to follow (the != side)
            if taken != want:
                raise Abort()
            self.pc.append(f if taken else bnot(f))
            self.known[f.uid] = taken
            self.known[bnot(f).uid] = not taken
            self.generic_excluded.append(f)
            return taken
        i = len(self.trace)
        if i < len(self.forced):
            fk = self.forced[i]
            if fk[0] != "b" or fk[1] != taken:
                raise Mismatch(f"decision {i}: witness gives {taken}, prefix wants {fk}: {core.show(f, 7)[:600]}")
        self.trace.append(("b", f, taken, len(self.pc)))
        self.pc.append(f if taken else bnot(f))
        self.known[f.uid] = taken
        self.known[bnot(f).uid] = not taken
        return taken

    def choose(self, x: SymInt) -> int:
        v = x.v
        i = len(self.trace)
        excluded = []
        if i < len(self.forced):
            fk = self.forced[i]
            if fk[0] != "c":
                raise Mismatch(f"decision {i}: choose vs {fk}")
            excluded = fk[1]
            if v in excluded or (fk[2] is not None and v != fk[2]):
                raise Mismatch(f"decision {i}: chose {v}, prefix wants {fk}")
        self.trace.append(("c", x.e, (tuple(excluded), v), len(self.pc)))
        self.pc.append(cmp("eq", x.e, iconst(v)))
        return v

    def sign_of(self, n: Node):
        s = core.structural_sign(n)
        if s in ("+", "0+"):
            return "+"
        if s in ("-", "0-"):
            return "-"
        return None

    # ---- definitional variables
    def root_var(self, x: SymReal, k: int):
        key = f"root!{k}!{x.n.uid}_{0 if x.d is None else x.d.uid}"
        y = var(key, "R")
        if key not in self.assign:
            f = x.v
            num = core.iroot(f.numerator, k)
            den = core.iroot(f.denominator, k)
            best = None
            for a in (num, num + 1):
                for b in (den, den + 1):
                    if a >= 0 and b > 0 and Fraction(a, b) ** k == f:
                        best = Fraction(a, b)
            if best is None:
                try:
                    best = Fraction(float(f) ** (1.0 / k)).limit_denominator(10**6)
                except OverflowError:
                    # huge rational: integer root of the scaled value (18 digits below the point)
                    sh = 10 ** 18
                    best = Fraction(core.iroot(f.numerator * sh**k // f.denominator, k), sh).limit_denominator(10**6)
                if f != 0 and best == 0:
                    best = Fraction(1, 10**6)
            self.assign[key] = best
        val = Fraction(self.assign[key])
        # sqrt(x) * sqrt(x) -> x is applied at the SymReal level only (the product *is* x, value included), for
        # every witness alike, so that the sequence of decisions does not depend on how exact the witness is
        self.roots[key] = x
        if val**k != x.v:
            self.exact = False
        if key not in self.known:
            self.known[key] = True
            yk = y
            for _ in range(k - 1):
                yk = mk("mul", (yk, y), "R")  # raw node: the sqrt(x)*sqrt(x) -> x rewrite must not apply to the definition
            lhs = yk if x.d is None else mul(yk, x.d)
            nonneg = mk("le", (core.R0, y), "B")  # raw node: cmp() would fold it away (roots are structurally >= 0)
            self.defs.append(nonneg)
            self.defs.append(cmp("eq", lhs, x.n))
            self.pc.append(nonneg)
            self.pc.append(bnot(core.bxor(cmp("eq", y, core.R0), cmp("eq", x.n, core.R0))))
        return SymReal(y, None, val)

    def quot_var(self, x: SymReal):
        key = f"quot!{x.n.uid}_{x.d.uid}"
        q = var(key, "R")
        self.assign[key] = x.v
        if key not in self.known:
            self.known[key] = True
            d = cmp("eq", mul(q, x.d), x.n)
            self.defs.append(d)
            self.pc.append(d)
        return SymReal(q, None, x.v)

    def floor_var(self, x: SymReal):
        key = f"floor!{x.n.uid}_{x.d.uid}"
        k = var(key, "I")
        val = math.floor(x.v)
        self.assign[key] = val
        kr = SymReal(core.toreal(k), None, Fraction(val))
        if key not in self.known:
            self.known[key] = True
            self.pc.append((kr <= x).f)
            self.pc.append((x < kr + 1).f)
        return SymInt(k, val)


def _is_nonlinear_eq(f: Node):
    """generic position: for (dis)equalities between non-constant nonlinear terms return the
    side to follow (True = follow f itself); None if f is not such a condition."""
    neg_ = False
    g = f
    if g.op == "not":
        g = g.args[0]
        neg_ = True
    if g.op != "eq" or g.sort != "B":
        return None
    a, b = g.args
    if a.sort != "R":
        return None
    if not (_nonlinear(a) or _nonlinear(b)):
        return None
    return neg_  # follow "not eq": if f is not(eq) follow f (True); if f is eq follow not f (False)


def _nonlinear(n: Node, _memo={}):
    r = _memo.get(n.uid)
    if r is not None:
        return r
    res = False
    if n.op == "mul":
        a, b = n.args
        if not core.is_const(a) and not core.is_const(b):
            res = True
    if not res:
        for x in n.args:
            if isinstance(x, Node) and _nonlinear(x):
                res = True
                break
    _memo[n.uid] = res
    return res


_VARS_MEMO = {}


def _vars_of(n: Node):
    r = _VARS_MEMO.get(n.uid)
    if r is None:
        r = frozenset(core.node_vars(n))
        if len(_VARS_MEMO) < 2_000_000:
            _VARS_MEMO[n.uid] = r
    return r


def _model_value(m, zt, sort):
    v = m.eval(zt, model_completion=False)
    if sort == "I":
        return v.as_long() if z3.is_int_value(v) else None
    if z3.is_rational_value(v):
        return Fraction(v.numerator_as_long(), v.denominator_as_long())
    if z3.is_algebraic_value(v):
        a = v.approx(30)
        return ("approx", Fraction(a.numerator_as_long(), a.denominator_as_long()))
    return None


class Explorer:
    def __init__(self, max_paths=5000, rlimit=3_000_000, generic=False, seed=0, wall_s=600.0):
        self.max_paths = max_paths
        self.rlimit = rlimit
        self.generic = generic
        self.seed = seed
        self.wall_s = wall_s
        self.stats = dict(paths=0, aborted=0, decisions=0, flips_sat=0, flips_unsat=0, flips_unknown=0,
                          mismatches=0, solver_calls=0, solver_s=0.0, partial_sat=0)
        self.undecided = []
        self.sample_pc = None
        self._cert_cache = {}
        self._assume_tried = set()
        self._lenient = set()

    def _check(self, s, *extra):
        t = time.time()
        r = s.check(*extra)
        self.stats["solver_calls"] += 1
        self.stats["solver_s"] += time.time() - t
        return r

    def run(self, fn):
        """fn(path) executes the harness body once along the path's witness."""
        t0 = time.time()
        work = [((), {})]
        while work:
            forced, assign = work.pop()
            if self.stats["paths"] >= self.max_paths:
                raise Budget(f"path budget {self.max_paths} exhausted")
            if time.time() - t0 > self.wall_s:
                raise Budget(f"wall budget {self.wall_s}s exhausted")
            p = Path(self, forced, assign)
            core.CUR = p
            try:
                fn(p)
                self.stats["paths"] += 1
            except Abort:
                self.stats["aborted"] += 1
            except AssumeFail as e:
                core.CUR = None
                key = (_hkey(forced), e.f.uid)
                if key in self._assume_tried:
                    if key in self._lenient:
                        self.stats["aborted"] += 1
                        continue
                    self._lenient.add(key)
                    work.append((forced, assign))
                    continue
                self._assume_tried.add(key)
                s = z3.Solver()
                s.set("rlimit", self.rlimit)
                s.set("timeout", 20000)
                for c in p.pc[:e.pclen]:
                    s.add(to_z3(c))
                w = self._flip(p, s, e.pclen, e.f)
                if w == "unsat":
                    # no witness with these decisions satisfies the assumption: the alternatives of the decisions
                    # taken so far are still to be explored
                    self.stats["aborted"] += 1
                    self._schedule(p, work)
                elif w is None:
                    self.undecided.append("assumption: " + core.show(e.f)[:200])
                    self._schedule(p, work)
                else:
                    work.append((forced, w))
                continue
            except Mismatch as e:
                self.stats["mismatches"] += 1
                self.undecided.append("mismatch: " + str(e)[:200])
                continue
            finally:
                core.CUR = None
            self.stats["decisions"] += len(p.trace)
            if self.sample_pc is None and p.pc:
                self.sample_pc = [core.show(c) for c in p.pc[:6]]
            self._schedule(p, work)

    def _schedule(self, p: Path, work):
        nf = len(p.forced)
        todo = []
        for i, (kind, f, taken, pclen) in enumerate(p.trace):
            if i >= nf:
                todo.append(i)
            elif i == nf - 1 and kind == "c":
                todo.append(i)
        if not todo:
            return
        new = []
        for i in todo:
            kind, f, taken, pclen = p.trace[i]
            s = None
            if kind == "b":
                target = bnot(f) if taken else f
                fk = ("b", not taken)
            else:
                excl = list(taken[0]) + [taken[1]]
                target = band(*[bnot(cmp("eq", f, iconst(v))) for v in excl])
                fk = ("c", excl, None)
            w = self._flip(p, s, pclen, target)
            if w == "unsat":
                self.stats["flips_unsat"] += 1
            elif w is None:
                self.stats["flips_unknown"] += 1
                self.undecided.append(core.show(target)[:200])
            else:
                self.stats["flips_sat"] += 1
                pre = tuple(_fk(t) for t in p.trace[:i])
                new.append((pre + (fk,), w))
        # DFS: deepest alternatives first (popped last-in-first-out)
        work.extend(new)

    def _certified_infeasible(self, p: Path, target):
        """sign certificates: target is `q < 0` (in some spelling) and q is *identically* equal to a
        registered sum-of-squares term -> infeasible.  The identity is decided by z3 without the
        path condition, so a wrong hint proves nothing."""
        if not p.nonneg_hints:
            return False
        t = target
        negated = False
        if t.op == "not":
            t = t.args[0]
            negated = True
        q = None
        if t.op in ("le", "lt") and len(t.args) == 2:
            a, b = t.args
            if negated and t.op == "le" and core.is_const(a) and core.cval(a) == 0:
                q = b  # not(0 <= q)
            elif not negated and t.op == "lt" and core.is_const(b) and core.cval(b) == 0:
                q = a  # q < 0
        if q is None:
            return False
        for h in p.nonneg_hints:
            key = (q.uid, h.uid)
            r = self._cert_cache.get(key)
            if r is None:
                s = z3.Solver()
                s.set("rlimit", self.rlimit)
                s.set("timeout", 10000)
                s.add(to_z3(bnot(cmp("eq", q, h))))
                r = self._check(s) == z3.unsat
                self._cert_cache[key] = r
            if r:
                self.stats["certificates"] = self.stats.get("certificates", 0) + 1
                return True
        return False

    def _slice(self, p: Path, pclen, target):
        """cone of influence: the constraints of the prefix that (transitively) share a variable with the target.
        The other constraints form independent components which the parent witness already satisfies, so the
        sliced query is equisatisfiable with the full one and its model extends the parent witness."""
        vs = set(_vars_of(target))
        rest = [(c, _vars_of(c)) for c in p.pc[:pclen]]
        keep = []
        changed = True
        while changed and rest:
            changed = False
            nxt = []
            for c, cv in rest:
                if cv and not vs.isdisjoint(cv):
                    keep.append(c)
                    vs |= cv
                    changed = True
                else:
                    nxt.append((c, cv))
            rest = nxt
        return keep

    def _flip(self, p: Path, s, pclen, target):
        if self._certified_infeasible(p, target):
            return "unsat"
        zt = to_z3(target)
        base = self._slice(p, pclen, target)
        s = z3.Solver()
        s.set("rlimit", self.rlimit)
        s.set("timeout", 20000)
        for c in base:
            s.add(to_z3(c))
        s.add(zt)
        r = self._check(s)
        if os.environ.get("VERIF_DEBUG_FLIP"):
            print("FLIP", core.show(target, 5)[:200], "->", r, "| slice:", [core.show(c, 4)[:80] for c in base][:12])
        if r == z3.sat:
            return self._witness(p, s.model())
        if r == z3.unsat:
            return "unsat"
        # unknown: (a) linear abstraction (products become fresh reals): catches contradictions such as
        # not(0 <= t) and not(0 <= -t) for a nonlinear t, which nlsat may fail to see within its limits
        try:
            cache = {}
            s3 = z3.Solver()
            s3.set("timeout", 5000)
            for c in base:
                s3.add(core.to_z3_abstract(c, cache))
            s3.add(core.to_z3_abstract(target, cache))
            if s3.check() == z3.unsat:
                self.stats["abstract_unsat"] = self.stats.get("abstract_unsat", 0) + 1
                return "unsat"
        except z3.Z3Exception:
            pass
        # (b) partial concretisation -- free only the variables of the target
        tv = core.node_vars(target)
        allv = {}
        for c in base:
            core.node_vars(c, allv)
        for attempt in range(4):
            free = set(tv)
            if attempt:
                names = sorted(allv)
                for j in range(min(len(names), 2 * attempt)):
                    free.add(names[(hash((attempt, j, len(names))) % len(names))])
            subs = []
            for nme, nd in allv.items():
                if nme not in free and nme in p.assign and nd.sort in ("R", "I"):
                    val = p.assign[nme]
                    subs.append((to_z3(nd), z3.IntVal(val) if nd.sort == "I" else
                                 z3.Q(Fraction(val).numerator, Fraction(val).denominator)))
            s2 = z3.Solver()
            s2.set("rlimit", self.rlimit)
            s2.set("timeout", 10000)
            cs = [to_z3(c) for c in base] + [zt]
            if subs:
                cs = [z3.substitute(c, *subs) for c in cs]
            s2.add(*cs)
            if self._check(s2) == z3.sat:
                self.stats["partial_sat"] += 1
                return self._witness(p, s2.model())
        return None

    def _witness(self, p: Path, m):
        w = dict(p.assign)
        for name in list(w):
            if name.startswith("uf!"):
                node = p.ufapps.get(name)
                if node is None:
                    continue
                val = _model_value(m, to_z3(node), "R")
            elif name.startswith("floor!"):
                val = _model_value(m, z3.Int(name), "I")
            else:
                sort = "I" if isinstance(w[name], int) and not isinstance(w[name], bool) else "R"
                val = _model_value(m, z3.Int(name) if sort == "I" else z3.Real(name), sort)
            if val is None:
                continue
            if isinstance(val, tuple):
                val = val[1]
            w[name] = val
        return w


def _fk(t):
    kind, f, taken, pclen = t
    if kind == "b":
        return ("b", taken)
    return ("c", list(taken[0]), taken[1])
