"""symx.oracles -- reference semantics written from the property text (plain loops over cells),
denotation functions, and small helpers that work in both modes (symbolic / concrete)."""
from __future__ import annotations

import itertools

import numpy as np

from . import core, npenv
from .core import SymInt


def _any_sym(vals):
    return any(core.is_sym(v) for v in vals)


def int_rows(rows):
    """matrix of integers (rows of subscripts); object dtype only when symbolic"""
    flat = [v for r in rows for v in r]
    if _any_sym(flat):
        a = np.empty((len(rows), len(rows[0]) if rows else 0), dtype=object)
        for i, r in enumerate(rows):
            for j, v in enumerate(r):
                a[i, j] = v
        return npenv.wrap(a)
    return np.array(rows, dtype=np.int64).reshape(len(rows), len(rows[0]) if rows else 0)


def int_vec(vals):
    if _any_sym(vals):
        a = np.empty(len(vals), dtype=object)
        for i, v in enumerate(vals):
            a[i] = v
        return npenv.wrap(a)
    return np.array(vals, dtype=np.int64)


# ---------------------------------------------------------------------------------------
# denotations: pyttb object -> object ndarray of cell values, computed from the stored
# components with plain loops (no pyttb conversion code is called)


def zeros(shape):
    a = np.empty(tuple(shape), dtype=object)
    a[...] = 0.0
    return a


def cells(arr):
    """ndarray -> object ndarray copy (cells as python scalars / symbolic scalars)"""
    arr = np.asarray(arr)
    out = np.empty(arr.shape, dtype=object)
    for idx in np.ndindex(*arr.shape):
        out[idx] = arr[idx]
    return out


def den(x):
    import pyttb as ttb
    if isinstance(x, ttb.tensor):
        return cells(x.data)
    if isinstance(x, ttb.sptensor):
        out = zeros(x.shape)
        subs = np.asarray(x.subs)
        vals = np.asarray(x.vals)
        for r in range(subs.shape[0] if subs.size else 0):
            idx = tuple(int(v) for v in subs[r])
            out[idx] = out[idx] + vals[r, 0]
        return out
    if isinstance(x, ttb.ktensor):
        return den_kruskal(x.weights, x.factor_matrices)
    if isinstance(x, ttb.ttensor):
        return den_tucker(den(x.core), x.factor_matrices)
    if isinstance(x, ttb.sumtensor):
        out = None
        for p in x.parts:
            d = den(p)
            out = d if out is None else out + d
        return out
    if isinstance(x, ttb.tenmat):
        return den_tenmat(cells(x.data), x.tshape, x.rindices, x.cindices)
    if isinstance(x, ttb.sptenmat):
        m = zeros(x.shape)
        subs = np.asarray(x.subs)
        vals = np.asarray(x.vals)
        for r in range(subs.shape[0] if subs.size else 0):
            i, j = int(subs[r, 0]), int(subs[r, 1])
            m[i, j] = m[i, j] + vals[r, 0]
        return den_tenmat(m, x.tshape, x.rdims, x.cdims)
    if isinstance(x, np.ndarray):
        return cells(x)
    raise TypeError(type(x))


def den_kruskal(weights, factors):
    shape = tuple(int(f.shape[0]) for f in factors)
    R = len(weights)
    out = zeros(shape)
    for idx in np.ndindex(*shape):
        s = 0.0
        for r in range(R):
            t = weights[r]
            for n, i in enumerate(idx):
                t = t * factors[n][i, r]
            s = s + t
        out[idx] = s
    return out


def den_tucker(core_cells, factors):
    shape = tuple(int(f.shape[0]) for f in factors)
    out = zeros(shape)
    for idx in np.ndindex(*shape):
        s = 0.0
        for j in np.ndindex(*core_cells.shape):
            t = core_cells[j]
            for n, i in enumerate(idx):
                t = t * factors[n][i, j[n]]
            s = s + t
        out[idx] = s
    return out


def mat_index(idx, shape, rdims, cdims):
    """(row, col) of tensor index idx in the matricization with row modes rdims and column modes
    cdims: within each side the first listed mode varies fastest"""
    r, stride = 0, 1
    for m in rdims:
        r += idx[m] * stride
        stride *= shape[m]
    c, stride = 0, 1
    for m in cdims:
        c += idx[m] * stride
        stride *= shape[m]
    return r, c


def den_tenmat(mat_cells, tshape, rdims, cdims):
    tshape = tuple(int(s) for s in tshape)
    rdims = [int(v) for v in rdims]
    cdims = [int(v) for v in cdims]
    out = zeros(tshape)
    for idx in np.ndindex(*tshape):
        r, c = mat_index(idx, tshape, rdims, cdims)
        out[idx] = mat_cells[r, c]
    return out


def ref_tenmat(t_cells, rdims, cdims):
    shape = t_cells.shape
    nr = int(np.prod([shape[m] for m in rdims])) if len(rdims) else 1
    nc = int(np.prod([shape[m] for m in cdims])) if len(cdims) else 1
    out = zeros((nr, nc))
    for idx in np.ndindex(*shape):
        r, c = mat_index(idx, shape, rdims, cdims)
        out[r, c] = t_cells[idx]
    return out


def count_nonzero_cells(c):
    """number of cells that are non-zero (decides each symbolic cell)"""
    return sum(1 for v in c.ravel().tolist() if (v != 0))


# ---------------------------------------------------------------------------------------
# well-formedness monitor for sparse results (C06)


def wellformed(E, S, label, filtered=True):
    """structure: subs integer nnz x N inside shape, pairwise distinct rows; vals nnz x 1;
    with filtered=True every stored value must be provably non-zero.
    (labels are mode-independent so that a symbolic failure and its concrete replay match)"""
    subs = np.asarray(S.subs)
    vals = np.asarray(S.vals)
    shape = S.shape
    n = len(shape)
    nnz = vals.shape[0] if vals.ndim >= 1 and vals.size else 0
    if nnz == 0:
        E.true(subs.size == 0, f"{label}: wellformed: empty vals => empty subs", f"subs has {subs.size} entries")
        E.true(S.nnz == 0, f"{label}: wellformed: nnz == 0 for empty", f"nnz reported {S.nnz}")
        return
    ok = (subs.ndim == 2 and subs.shape == (nnz, n) and vals.ndim == 2 and vals.shape == (nnz, 1))
    E.true(ok, f"{label}: wellformed: one value per stored subscript", f"subs {subs.shape}, vals {vals.shape}, order {n}")
    if not ok:
        return
    if subs.dtype == object and any(isinstance(v, SymInt) for v in subs.ravel().tolist()):
        # symbolic integer subscripts (e.g. derived from random draws): the solver enumerates their values
        subs = np.array([int(v) for v in subs.ravel().tolist()], dtype=np.int64).reshape(subs.shape)
    flat = subs.ravel().tolist()
    isint = subs.dtype.kind in "iu" or all(isinstance(v, (int, np.integer)) and not isinstance(v, bool) for v in flat)
    E.true(isint, f"{label}: wellformed: integer subscripts", f"dtype {subs.dtype}, e.g. {flat[:3]}")
    try:
        rows = [tuple(int(v) for v in r) for r in subs.tolist()]
        integral = all(int(v) == v for v in flat)
    except (TypeError, ValueError):
        rows, integral = None, False
    if rows is None or not integral:
        E.true(False, f"{label}: wellformed: subscripts are whole numbers", f"{subs.tolist()}")
        return
    inside = all(0 <= r[k] < int(shape[k]) for r in rows for k in range(n))
    E.true(inside, f"{label}: wellformed: subscripts inside shape", f"shape {tuple(shape)}: {rows}")
    E.true(len(set(rows)) == len(rows), f"{label}: wellformed: distinct subscripts", f"{rows}")
    E.true(S.nnz == nnz, f"{label}: wellformed: nnz == stored entries", f"{S.nnz} vs {nnz}")
    if filtered:
        allnz = True
        for r in range(nnz):
            allnz = E.true(vals[r, 0] != 0, f"{label}: wellformed: no explicit zero stored") and allnz


# ---------------------------------------------------------------------------------------
# builders


def dense(E, name, shape, **kw):
    import pyttb as ttb
    return ttb.tensor(E.reals(name, shape, **kw), copy=False) if len(shape) else None


def sparse_direct(E, name, shape, positions, order=None):
    """sptensor built directly from components: stored values are symbolic and assumed non-zero
    (representation invariant), at the given positions, in the given stored order"""
    import pyttb as ttb
    k = len(positions)
    vals = [E.real(f"{name}{i}", nonzero=True) for i in range(k)]
    order = list(range(k)) if order is None else list(order)
    subs = np.array([positions[i] for i in order], dtype=np.int64).reshape(k, len(shape))
    if E.sym:
        v = npenv.obj_array([vals[i] for i in order], (k, 1))
    else:
        v = np.array([vals[i] for i in order], dtype=float).reshape(k, 1)
    return ttb.sptensor(subs, v, tuple(shape), copy=False), {tuple(positions[i]): vals[i] for i in range(k)}


def sparse_ref(shape, posvals):
    out = zeros(shape)
    for p, v in posvals.items():
        out[p] = v
    return out


def all_positions(shape):
    return [idx for idx in np.ndindex(*shape)]


def orders(k, limit=None):
    ps = list(itertools.permutations(range(k)))
    return ps if limit is None else ps[:limit]


def kruskal(E, name, shape, R, weights=True):
    import pyttb as ttb
    fs = [E.reals(f"{name}U{n}_", (s, R)) for n, s in enumerate(shape)]
    if weights:
        w = E.reals(f"{name}w", (R,))
    else:
        w = E.const(np.ones(R))
    return ttb.ktensor(fs, w, copy=False)


def tucker(E, name, shape, core_shape):
    import pyttb as ttb
    core = ttb.tensor(E.reals(f"{name}G", core_shape), copy=False)
    fs = [E.reals(f"{name}U{n}_", (s, c)) for n, (s, c) in enumerate(zip(shape, core_shape))]
    return ttb.ttensor(core, fs, copy=False)


# ---------------------------------------------------------------------------------------
# index-map references (C07)


def ref_permute(c, order):
    """R[j] = X[i] with i[order[k]] = j[k]"""
    order = [int(o) for o in order]
    shape = tuple(c.shape[o] for o in order)
    out = zeros(shape)
    for j in np.ndindex(*shape):
        i = [0] * len(order)
        for k, o in enumerate(order):
            i[o] = j[k]
        out[j] = c[tuple(i)]
    return out


def lin_index(idx, shape):
    r, stride = 0, 1
    for k, n in enumerate(shape):
        r += idx[k] * stride
        stride *= n
    return r


def from_lin(l, shape):
    idx = []
    for n in shape:
        idx.append(l % n)
        l //= n
    return tuple(idx)


def ref_reshape(c, newshape):
    """first index fastest: the linear position of every entry is preserved"""
    out = zeros(newshape)
    for i in np.ndindex(*c.shape):
        out[from_lin(lin_index(i, c.shape), newshape)] = c[i]
    return out


def ref_reshape_modes(c, newshape, old_modes):
    """sptensor.reshape(new, old_modes): reshape the listed modes (in the listed order), kept modes first"""
    N = c.ndim
    old_modes = [int(m) for m in old_modes]
    keep = [m for m in range(N) if m not in old_modes]
    oshape = [c.shape[m] for m in old_modes]
    out = zeros([c.shape[m] for m in keep] + list(newshape))
    for i in np.ndindex(*c.shape):
        l = lin_index([i[m] for m in old_modes], oshape)
        out[tuple(i[m] for m in keep) + from_lin(l, newshape)] = c[i]
    return out


def factorizations(n, maxlen):
    """all ordered factorizations of n into 1..maxlen factors (factors >= 1, at most one run of ones trimmed)"""
    out = set()

    def rec(rem, acc):
        if len(acc) == maxlen:
            if rem == 1:
                out.add(tuple(acc))
            return
        if rem == 1 and acc:
            out.add(tuple(acc))
        for f in range(1, rem + 1):
            if rem % f == 0:
                rec(rem // f, acc + [f])
    rec(n, [])
    return sorted(out)


# ---------------------------------------------------------------------------------------
# multilinear references (C02): the defining sums over indices


def ref_ttv(c, vecs):
    """vecs: {mode: vector}; contract those modes; remaining modes keep their order"""
    N = c.ndim
    rem = [m for m in range(N) if m not in vecs]
    out = zeros([c.shape[m] for m in rem])
    for i in np.ndindex(*c.shape):
        t = c[i]
        for m, v in vecs.items():
            t = t * v[i[m]]
        j = tuple(i[m] for m in rem)
        out[j] = out[j] + t
    return out if rem else out[()]


def ref_ttm(c, mats, transpose=False):
    """mats: {mode: matrix}; Y[..j..] = sum_i X[..i..] M[j,i]  (transpose: M[i,j])"""
    cur = c
    for m, M in mats.items():
        J = M.shape[1] if transpose else M.shape[0]
        shape = list(cur.shape)
        shape[m] = J
        out = zeros(shape)
        for i in np.ndindex(*cur.shape):
            for j in range(J):
                k = list(i)
                k[m] = j
                k = tuple(k)
                out[k] = out[k] + cur[i] * (M[i[m], j] if transpose else M[j, i[m]])
        cur = out
    return cur


def ref_mttkrp(c, factors, n, weights=None):
    """out[i_n, r] = sum_i X[i] * prod_{m != n} U_m[i_m, r]  (* w_r)"""
    R = factors[0 if n != 0 else 1].shape[1] if len(factors) > 1 else (len(weights) if weights is not None else 1)
    out = zeros((c.shape[n], R))
    for i in np.ndindex(*c.shape):
        for r in range(R):
            t = c[i]
            for m in range(c.ndim):
                if m != n:
                    t = t * factors[m][i[m], r]
            if weights is not None:
                t = t * weights[r]
            out[i[n], r] = out[i[n], r] + t
    return out


def ref_innerprod(a, b):
    s = 0.0
    for i in np.ndindex(*a.shape):
        s = s + a[i] * b[i]
    return s


def ref_sumsq(a):
    s = 0.0
    for v in a.ravel().tolist():
        s = s + v * v
    return s


def ref_ttt(a, b, adims=(), bdims=()):
    """contract a's modes adims with b's modes bdims; result modes: remaining a modes then remaining b modes"""
    adims = [int(x) for x in adims]
    bdims = [int(x) for x in bdims]
    ra = [m for m in range(a.ndim) if m not in adims]
    rb = [m for m in range(b.ndim) if m not in bdims]
    out = zeros([a.shape[m] for m in ra] + [b.shape[m] for m in rb])
    for i in np.ndindex(*a.shape):
        for j in np.ndindex(*b.shape):
            if all(i[x] == j[y] for x, y in zip(adims, bdims)):
                k = tuple(i[m] for m in ra) + tuple(j[m] for m in rb)
                out[k] = out[k] + a[i] * b[j]
    return out if out.ndim else out[()]


def ref_contract(c, i1, i2):
    rem = [m for m in range(c.ndim) if m not in (i1, i2)]
    out = zeros([c.shape[m] for m in rem])
    for i in np.ndindex(*c.shape):
        if i[i1] == i[i2]:
            k = tuple(i[m] for m in rem)
            out[k] = out[k] + c[i]
    return out if rem else out[()]


def ref_collapse(c, dims, red=None):
    """reduce the modes in dims with `red` (list -> value; default sum)"""
    dims = [int(d) for d in dims]
    rem = [m for m in range(c.ndim) if m not in dims]
    groups = {}
    for i in np.ndindex(*c.shape):
        groups.setdefault(tuple(i[m] for m in rem), []).append(c[i])
    if red is None:
        def red(vs):
            s = 0.0
            for v in vs:
                s = s + v
            return s
    out = zeros([c.shape[m] for m in rem])
    for k, vs in groups.items():
        out[k] = red(vs)
    return out if rem else out[()]


def ref_scale(c, factor_cells, dims):
    dims = [int(d) for d in dims]
    out = zeros(c.shape)
    for i in np.ndindex(*c.shape):
        out[i] = c[i] * factor_cells[tuple(i[m] for m in dims)]
    return out


def ref_khatrirao(mats):
    """column-wise Kronecker product; the FIRST matrix's row index varies slowest"""
    R = mats[0].shape[1]
    rows = [M.shape[0] for M in mats]
    out = zeros((int(np.prod(rows)), R))
    for idx in np.ndindex(*rows):
        lin = 0
        for k, i in enumerate(idx):
            lin = lin * rows[k] + i
        for r in range(R):
            t = 1.0
            for k, i in enumerate(idx):
                t = t * mats[k][i, r]
            out[lin, r] = t
    return out


def smax(vs):
    m = vs[0]
    for v in vs[1:]:
        m = v if (v > m) else m
    return m


# ---------------------------------------------------------------------------------------
# C04: reference model of an F-ordered growable array


class ArrayModel:
    def __init__(self, cells):
        self.a = cells.copy()

    @property
    def shape(self):
        return self.a.shape

    def grow(self, need):
        """need: minimal extents (may have more entries than the current order)"""
        cur = list(self.a.shape) + [1] * (len(need) - self.a.ndim)
        new = [max(c, n) for c, n in zip(cur, need)]
        if tuple(new) != self.a.shape:
            b = zeros(new)
            for idx in np.ndindex(*self.a.shape):
                b[tuple(idx) + (0,) * (len(new) - self.a.ndim)] = self.a[idx]
            self.a = b

    def norm_sub(self, sub):
        """full subscript with python-style negative entries (relative to the current extent)"""
        out = []
        for k, s in enumerate(sub):
            s = int(s)
            if s < 0:
                s += self.a.shape[k] if k < self.a.ndim else 1
            out.append(s)
        return tuple(out)

    def set(self, sub, v):
        sub = self.norm_sub(sub)
        self.grow([s + 1 for s in sub])
        self.a[sub] = v

    def get(self, sub):
        return self.a[self.norm_sub(sub)]

    def lin(self, k):
        size = int(np.prod(self.a.shape))
        k = int(k)
        if k < 0:
            k += size
        return from_lin(k, self.a.shape)

    def region_subs(self, key):
        """key: tuple of int / slice / list per mode -> (list of index lists, kept-mode flags); grows nothing"""
        lists, keep = [], []
        for k, r in enumerate(key):
            ext = self.a.shape[k] if k < self.a.ndim else 1
            if isinstance(r, slice):
                stop = r.stop
                lists.append(list(range(max(ext, stop if stop is not None else 0)))[r])
                keep.append(True)
            elif isinstance(r, (list, tuple, np.ndarray)):
                lists.append([int(x) for x in r])
                keep.append(True)
            else:
                r = int(r)
                lists.append([r + ext if r < 0 else r])
                keep.append(False)
        return lists, keep
