"""symx.oracles -- reference semantics written from the property text (plain loops over cells),
denotation functions, and small helpers that work in both modes (symbolic / concrete)."""
from __future__ import annotations

import itertools

import numpy as np

from . import core, npenv
from .core import SymInt


def _any_sym(vals):
    return any(core.is_sym(v) for v in vals)


def int_rows(rows):
    """matrix of integers (rows of subscripts); object dtype only when symbolic"""
    flat = [v for r in rows for v in r]
    if _any_sym(flat):
        a = np.empty((len(rows), len(rows[0]) if rows else 0), dtype=object)
        for i, r in enumerate(rows):
            for j, v in enumerate(r):
                a[i, j] = v
        return npenv.wrap(a)
    return np.array(rows, dtype=np.int64).reshape(len(rows), len(rows[0]) if rows else 0)


def int_vec(vals):
    if _any_sym(vals):
        a = np.empty(len(vals), dtype=object)
        for i, v in enumerate(vals):
            a[i] = v
        return npenv.wrap(a)
    return np.array(vals, dtype=np.int64)
