"""symx.oracles -- reference semantics written from the property text (plain loops over cells),
denotation functions, and small helpers that work in both modes (symbolic / concrete)."""
from __future__ import annotations

import itertools

import numpy as np

from . import core, npenv
from .core import SymInt


def _any_sym(vals):
    return any(core.is_sym(v) for v in vals)


def int_rows(rows):
    """matrix of integers (rows of subscripts); object dtype only when symbolic"""
    flat = [v for r in rows for v in r]
    if _any_sym(flat):
        a = np.empty((len(rows), len(rows[0]) if rows else 0), dtype=object)
        for i, r in enumerate(rows):
            for j, v in enumerate(r):
                a[i, j] = v
        return npenv.wrap(a)
    return np.array(rows, dtype=np.int64).reshape(len(rows), len(rows[0]) if rows else 0)


def int_vec(vals):
    if _any_sym(vals):
        a = np.empty(len(vals), dtype=object)
        for i, v in enumerate(vals):
            a[i] = v
        return npenv.wrap(a)
    return np.array(vals, dtype=np.int64)


# ---------------------------------------------------------------------------------------
# denotations: pyttb object -> object ndarray of cell values, computed from the stored
# components with plain loops (no pyttb conversion code is called)


def zeros(shape):
    a = np.empty(tuple(shape), dtype=object)
    a[...] = 0.0
    return a


def cells(arr):
    """ndarray -> object ndarray copy (cells as python scalars / symbolic scalars)"""
    arr = np.asarray(arr)
    out = np.empty(arr.shape, dtype=object)
    for idx in np.ndindex(*arr.shape):
        out[idx] = arr[idx]
    return out


def den(x):
    import pyttb as ttb
    if isinstance(x, ttb.tensor):
        return cells(x.data)
    if isinstance(x, ttb.sptensor):
        out = zeros(x.shape)
        subs = np.asarray(x.subs)
        vals = np.asarray(x.vals)
        for r in range(subs.shape[0] if subs.size else 0):
            idx = tuple(int(v) for v in subs[r])
            out[idx] = out[idx] + vals[r, 0]
        return out
    if isinstance(x, ttb.ktensor):
        return den_kruskal(x.weights, x.factor_matrices)
    if isinstance(x, ttb.ttensor):
        return den_tucker(den(x.core), x.factor_matrices)
    if isinstance(x, ttb.sumtensor):
        out = None
        for p in x.parts:
            d = den(p)
            out = d if out is None else out + d
        return out
    if isinstance(x, ttb.tenmat):
        return den_tenmat(cells(x.data), x.tshape, x.rindices, x.cindices)
    if isinstance(x, ttb.sptenmat):
        m = zeros(x.shape)
        subs = np.asarray(x.subs)
        vals = np.asarray(x.vals)
        for r in range(subs.shape[0] if subs.size else 0):
            i, j = int(subs[r, 0]), int(subs[r, 1])
            m[i, j] = m[i, j] + vals[r, 0]
        return den_tenmat(m, x.tshape, x.rdims, x.cdims)
    if isinstance(x, np.ndarray):
        return cells(x)
    raise TypeError(type(x))


def den_kruskal(weights, factors):
    shape = tuple(int(f.shape[0]) for f in factors)
    R = len(weights)
    out = zeros(shape)
    for idx in np.ndindex(*shape):
        s = 0.0
        for r in range(R):
            t = weights[r]
            for n, i in enumerate(idx):
                t = t * factors[n][i, r]
            s = s + t
        out[idx] = s
    return out


def den_tucker(core_cells, factors):
    shape = tuple(int(f.shape[0]) for f in factors)
    out = zeros(shape)
    for idx in np.ndindex(*shape):
        s = 0.0
        for j in np.ndindex(*core_cells.shape):
            t = core_cells[j]
            for n, i in enumerate(idx):
                t = t * factors[n][i, j[n]]
            s = s + t
        out[idx] = s
    return out


def mat_index(idx, shape, rdims, cdims):
    """(row, col) of tensor index idx in the matricization with row modes rdims and column modes
    cdims: within each side the first listed mode varies fastest"""
    r, stride = 0, 1
    for m in rdims:
        r += idx[m] * stride
        stride *= shape[m]
    c, stride = 0, 1
    for m in cdims:
        c += idx[m] * stride
        stride *= shape[m]
    return r, c


def den_tenmat(mat_cells, tshape, rdims, cdims):
    tshape = tuple(int(s) for s in tshape)
    rdims = [int(v) for v in rdims]
    cdims = [int(v) for v in cdims]
    out = zeros(tshape)
    for idx in np.ndindex(*tshape):
        r, c = mat_index(idx, tshape, rdims, cdims)
        out[idx] = mat_cells[r, c]
    return out


def ref_tenmat(t_cells, rdims, cdims):
    shape = t_cells.shape
    nr = int(np.prod([shape[m] for m in rdims])) if len(rdims) else 1
    nc = int(np.prod([shape[m] for m in cdims])) if len(cdims) else 1
    out = zeros((nr, nc))
    for idx in np.ndindex(*shape):
        r, c = mat_index(idx, shape, rdims, cdims)
        out[r, c] = t_cells[idx]
    return out


def count_nonzero_cells(c):
    """number of cells that are non-zero (decides each symbolic cell)"""
    return sum(1 for v in c.ravel().tolist() if (v != 0))


# ---------------------------------------------------------------------------------------
# well-formedness monitor for sparse results (C06)


def wellformed(E, S, label, filtered=True):
    """structure: subs integer nnz x N inside shape, pairwise distinct rows; vals nnz x 1;
    with filtered=True every stored value must be provably non-zero."""
    import pyttb as ttb
    subs = np.asarray(S.subs)
    vals = np.asarray(S.vals)
    if isinstance(S, ttb.sptenmat):
        shape = S.shape
    else:
        shape = S.shape
    n = len(shape)
    nnz = vals.shape[0] if vals.ndim >= 1 and vals.size else 0
    if nnz == 0:
        E.true(subs.size == 0, f"{label}: empty vals but subs has {subs.size} entries")
        E.true(S.nnz == 0, f"{label}: nnz reported {S.nnz} for empty tensor")
        return
    ok = (subs.ndim == 2 and subs.shape == (nnz, n) and vals.ndim == 2 and vals.shape == (nnz, 1))
    E.true(ok, f"{label}: one value per stored subscript (subs {subs.shape}, vals {vals.shape}, order {n})")
    if not ok:
        return
    E.true(subs.dtype.kind in "iu", f"{label}: integer subscripts (dtype {subs.dtype})")
    inside = all(0 <= int(subs[r, k]) < int(shape[k]) for r in range(nnz) for k in range(n)) if subs.dtype.kind in "iu" else False
    E.true(inside, f"{label}: subscripts inside shape {tuple(shape)}: {subs.tolist()}")
    rows = [tuple(r) for r in subs.tolist()]
    E.true(len(set(rows)) == len(rows), f"{label}: distinct subscripts: {rows}")
    E.true(S.nnz == nnz, f"{label}: nnz == stored entries")
    if filtered:
        for r in range(nnz):
            E.true(vals[r, 0] != 0, f"{label}: no explicit zero stored")


# ---------------------------------------------------------------------------------------
# builders


def dense(E, name, shape, **kw):
    import pyttb as ttb
    return ttb.tensor(E.reals(name, shape, **kw), copy=False) if len(shape) else None


def sparse_direct(E, name, shape, positions, order=None):
    """sptensor built directly from components: stored values are symbolic and assumed non-zero
    (representation invariant), at the given positions, in the given stored order"""
    import pyttb as ttb
    k = len(positions)
    vals = [E.real(f"{name}{i}", nonzero=True) for i in range(k)]
    order = list(range(k)) if order is None else list(order)
    subs = np.array([positions[i] for i in order], dtype=np.int64).reshape(k, len(shape))
    if E.sym:
        v = npenv.obj_array([vals[i] for i in order], (k, 1))
    else:
        v = np.array([vals[i] for i in order], dtype=float).reshape(k, 1)
    return ttb.sptensor(subs, v, tuple(shape), copy=False), {tuple(positions[i]): vals[i] for i in range(k)}


def sparse_ref(shape, posvals):
    out = zeros(shape)
    for p, v in posvals.items():
        out[p] = v
    return out


def all_positions(shape):
    return [idx for idx in np.ndindex(*shape)]


def orders(k, limit=None):
    ps = list(itertools.permutations(range(k)))
    return ps if limit is None else ps[:limit]


def kruskal(E, name, shape, R, weights=True):
    import pyttb as ttb
    fs = [E.reals(f"{name}U{n}_", (s, R)) for n, s in enumerate(shape)]
    if weights:
        w = E.reals(f"{name}w", (R,))
    else:
        w = E.const(np.ones(R))
    return ttb.ktensor(fs, w, copy=False)


def tucker(E, name, shape, core_shape):
    import pyttb as ttb
    core = ttb.tensor(E.reals(f"{name}G", core_shape), copy=False)
    fs = [E.reals(f"{name}U{n}_", (s, c)) for n, (s, c) in enumerate(zip(shape, core_shape))]
    return ttb.ttensor(core, fs, copy=False)
