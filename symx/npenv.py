"""symx.npenv -- the environment in which the unmodified pyttb source runs symbolically.

* `SA`       : ndarray subclass (dtype object) fixing the few places where object arrays
               behave differently from float arrays;
* `fac`      : facade for the `np` global of the pyttb modules (forwards to real NumPy,
               re-wraps object results, supplies float semantics where NumPy has only C loops);
* stand-ins  : numpy_groupies.aggregate, scipy.sparse COO/CSR, linalg.solve, eigen-solver
               and RNG stubs, builtin float/int shadows;
* `patched()`: context manager replacing module globals of the imported pyttb modules
               (nothing under /repo is modified).
"""
from __future__ import annotations

import builtins
import contextlib
import functools
import math
import sys
import types
from fractions import Fraction

import numpy as np

from . import core
from .core import SymBool, SymInt, SymReal, Unmodelled

_SYM = (SymReal, SymInt, SymBool)


def is_sym_arr(a):
    return isinstance(a, np.ndarray) and a.dtype == object


def _has_sym(a):
    if isinstance(a, _SYM):
        return True
    if isinstance(a, np.ndarray):
        return a.dtype == object
    if isinstance(a, (list, tuple)):
        return any(_has_sym(x) for x in a)
    return False


# --------------------------------------------------------------------------
# SA: object ndarray with float-array manners

_ND_GET = np.ndarray.__getitem__
_ND_SET = np.ndarray.__setitem__


def _truth(x):
    return bool(x)


_truth_uf = np.frompyfunc(_truth, 1, 1)


def asbool(a):
    """object array of SymBool / SymReal / bools -> real bool array (decides each element)"""
    if not isinstance(a, np.ndarray):
        a = np.asarray(a)
    if a.dtype == object:
        if a.ndim == 0:
            return np.bool_(bool(a[()]))
        if a.size == 0:
            return np.zeros(a.shape, dtype=bool)
        return np.ndarray.astype(_truth_uf(a).view(np.ndarray), bool)
    return a.astype(bool)


def _concretize_index(k):
    """index arrays holding SymInt are concretised by enumeration (choose)"""
    if isinstance(k, SymInt):
        return k.__index__()
    if isinstance(k, SymBool):
        return bool(k)
    if isinstance(k, np.ndarray) and k.dtype == object and k.size:
        flat = k.ravel().tolist()
        if all(isinstance(v, (SymBool, bool, np.bool_)) for v in flat):
            return asbool(k)
        if all(isinstance(v, (SymInt, int, np.integer)) and not isinstance(v, bool) for v in flat):
            return np.array([int(v) for v in flat], dtype=np.intp).reshape(k.shape)
        return k
    if isinstance(k, np.ndarray) and k.dtype == object and k.size == 0:
        return k.astype(np.intp)
    if isinstance(k, tuple):
        return tuple(_concretize_index(x) for x in k)
    if isinstance(k, list) and any(isinstance(v, (SymInt, SymBool)) for v in k):
        return [_concretize_index(v) for v in k]
    return k


# opaque tokens standing for symbolic scalars in text files (C16): tofile writes one token per element in the
# element order numpy's tofile uses (C order), fromfile / string assignment read them back
TOKENS = {}


def token_of(v, fmt="%s"):
    if isinstance(v, _SYM):
        t = f"@S{len(TOKENS)}@"
        TOKENS[t] = v
        return t
    if isinstance(v, (float, np.floating)):
        return fmt % float(v)
    if isinstance(v, (int, np.integer)):
        return (fmt % int(v)) if "d" in fmt else (fmt % float(v))
    return str(v)


def parse_token(t):
    if t in TOKENS:
        return TOKENS[t]
    return float(t)


def write_tokens(fid, values, sep, fmt):
    fid.write(sep.join(token_of(v, fmt) for v in values))


class SA(np.ndarray):
    def __getitem__(self, key):
        r = _ND_GET(self, _concretize_index(key))
        if type(r) is float:
            return np.float64(r)  # element access of a float array yields a numpy scalar
        return r

    def dot(self, b, out=None):
        return _wrapres(np.ndarray.dot(self.view(np.ndarray), b))

    def tofile(self, fid, sep="", format="%s"):
        if sep == "":
            raise Unmodelled("binary tofile")
        write_tokens(fid, np.ndarray.ravel(self.view(np.ndarray), order="C").tolist(), sep, format)

    def __setitem__(self, key, value):
        key = _concretize_index(key)
        if isinstance(value, str) and self.dtype == object:
            value = parse_token(value)  # float arrays convert strings on assignment
        if isinstance(value, np.ndarray) and value.size == 1 and self.dtype == object and value.ndim > 0:
            try:
                tgt = _ND_GET(self.view(np.ndarray), key)
            except Exception:
                tgt = None
            if tgt is not None and not isinstance(tgt, np.ndarray):
                value = value.reshape(-1)[0]
        _ND_SET(self, key, value)

    # object arrays raise ZeroDivisionError on x / 0 where float arrays give nan / inf
    def __truediv__(self, other):
        return _ieee_div(self, other)

    def __rtruediv__(self, other):
        return _ieee_div(other, self)

    def __itruediv__(self, other):
        self[...] = _ieee_div(self, other)
        return self

    def __array_wrap__(self, obj, context=None, return_scalar=False):
        if obj.ndim == 0 and obj.dtype == object:
            return obj[()]
        return np.ndarray.__array_wrap__(self, obj, context, return_scalar)

    def astype(self, dtype, *a, **kw):
        try:
            dt = np.dtype(dtype)
        except TypeError:
            dt = None
        if self.dtype == object:
            if dt is not None and dt.kind == "f":
                return self.copy()
            if dt is not None and dt.kind == "b":
                return asbool(self)
            if dt is not None and dt.kind in "iu":
                flat = self.ravel().tolist()
                if any(isinstance(v, SymReal) and not v.is_constant() for v in flat):
                    out = np.empty(len(flat), dtype=object)
                    for i, v in enumerate(flat):
                        out[i] = int(v) if not isinstance(v, SymReal) else _trunc(v)
                    return wrap(out.reshape(self.shape))
                return np.array([int(v) for v in flat], dtype=dt).reshape(self.shape)
        return wrap(np.ndarray.astype(self, dtype, *a, **kw))


def _div_el(a, b):
    if isinstance(a, _SYM) or isinstance(b, _SYM):
        return a / b
    try:
        return a / b
    except ZeroDivisionError:
        if a != a or a == 0:
            return float("nan")
        return float("inf") if a > 0 else float("-inf")


_div_uf = np.frompyfunc(_div_el, 2, 1)


def _ieee_div(a, b):
    r = _div_uf(a, b)
    return wrap(r) if isinstance(r, np.ndarray) else r


def _trunc(v: SymReal):
    f = core.floor(v) if bool(v >= 0) else -core.floor(-v)
    return f


def wrap(a):
    if isinstance(a, np.ndarray) and a.dtype == object and not isinstance(a, SA):
        return a.view(SA)
    return a


def _np_scalar(v):
    """0-d results of object arrays are python scalars; real float arrays give numpy scalars"""
    if isinstance(v, bool):
        return np.bool_(v)
    if isinstance(v, float):
        return np.float64(v)
    if isinstance(v, int):
        return np.int64(v)
    return v


def _wrapres(r):
    if isinstance(r, np.ndarray):
        if r.ndim == 0 and r.dtype == object:
            return _np_scalar(r[()])
        return wrap(r)
    if isinstance(r, (float, int)) and not isinstance(r, bool):
        return _np_scalar(r)
    if isinstance(r, tuple):
        return tuple(_wrapres(x) for x in r)
    if isinstance(r, list):
        return [_wrapres(x) for x in r]
    return r


def obj_array(values, shape=None):
    """build an SA from a (nested) list of scalars without numpy trying to iterate the scalars"""
    if isinstance(values, np.ndarray):
        a = np.empty(values.shape, dtype=object)
        a[...] = values
        flat = a.ravel()
        for i, v in enumerate(flat.tolist()):
            if isinstance(v, (float, np.floating)):
                flat[i] = float(v)
        return wrap(a)
    flat = list(values)
    a = np.empty(len(flat), dtype=object)
    for i, v in enumerate(flat):
        a[i] = v
    if shape is not None:
        a = a.reshape(shape, order="F")
    return wrap(a)


# --------------------------------------------------------------------------
# fake numpy scalar types (isinstance / issubclass accept symbolic scalars)


class _Meta(type):
    def __subclasscheck__(cls, sub):
        return issubclass(sub, cls._real) or (cls._obj and issubclass(sub, np.object_))

    def __instancecheck__(cls, inst):
        return isinstance(inst, cls._real) or isinstance(inst, cls._syms)

    def __call__(cls, *a, **kw):
        if a and isinstance(a[0], cls._syms):
            return a[0]
        return cls._real(*a, **kw)


def fake(real, syms, obj=True, extra=None):
    ns = {"_real": real, "_obj": obj, "_syms": syms}
    ns.update(extra or {})
    return _Meta(real.__name__, (), ns)


# --------------------------------------------------------------------------
# the facade


class NPFacade(types.ModuleType):
    def __getattr__(self, k):
        v = getattr(np, k)
        if callable(v) and not isinstance(v, type):
            @functools.wraps(v)
            def w(*a, **kw):
                return _wrapres(v(*a, **kw))
            setattr(self, k, w)
            return w
        return v


fac = NPFacade("numpy_facade")
fac.ndarray = np.ndarray
fac.number = fake(np.number, (SymReal, SymInt))
fac.floating = fake(np.floating, (SymReal,))
fac.float64 = fake(np.float64, (SymReal,), extra={"dtype": np.dtype(object)})
fac.float_ = fac.float64
fac.integer = fake(np.integer, (SymInt,), obj=False)
fac.int_ = fake(np.int_, (SymInt,), obj=False, extra={"dtype": np.dtype(np.int_)})
fac.int64 = fake(np.int64, (SymInt,), obj=False, extra={"dtype": np.dtype(np.int64)})
fac.intp = fake(np.intp, (SymInt,), obj=False, extra={"dtype": np.dtype(np.intp)})
fac.generic = fake(np.generic, _SYM)
fac.bool_ = fake(np.bool_, (SymBool,), obj=False, extra={"dtype": np.dtype(bool)})
fac.random = None  # set by Env (RNG stub) -- accessing it unset is an error
fac.inf = np.inf
fac.nan = np.nan
fac.newaxis = np.newaxis
fac.pi = np.pi


def _is_floatish(dtype):
    if dtype is None or dtype is builtins.float or dtype is SymFloat:
        return True
    try:
        return np.dtype(dtype).kind == "f"
    except TypeError:
        return dtype is fac.float64


def _creator(name, fill):
    real = getattr(np, name)

    def f(shape=None, dtype=None, order="C", **kw):
        if "shape" in kw and shape is None:
            shape = kw.pop("shape")
        kw.pop("like", None)
        if isinstance(shape, SymInt):
            shape = int(shape)
        elif isinstance(shape, (tuple, list)):
            shape = tuple(int(s) for s in shape)
        if _is_floatish(dtype):
            if int(np.prod(shape)) == 0 and name == "empty":
                # placeholders stacked with integer arrays (np.empty((0, n))): keep the real float dtype so that the
                # dtype of the stacked result is the one real NumPy produces; zeros / ones are accumulators that
                # receive symbolic values in place and stay object arrays
                return real(shape, dtype=builtins.float, order=order)
            a = np.empty(shape, dtype=object, order=order).view(SA)
            a[...] = 0.0 if fill is None else fill
            return a
        if dtype is SymIntT:
            dtype = np.int64
        return real(shape, dtype=dtype, order=order, **kw)

    return f


fac.zeros = _creator("zeros", 0.0)
fac.ones = _creator("ones", 1.0)
fac.empty = _creator("empty", None)


def _full(shape, fill_value, dtype=None, order="C", **kw):
    if isinstance(fill_value, _SYM) or (dtype is None and isinstance(fill_value, builtins.float)) or (
            dtype is not None and _is_floatish(dtype)):
        a = np.empty(shape, dtype=object, order=order).view(SA)
        a[...] = fill_value
        return a
    return np.full(shape, fill_value, dtype=dtype, order=order)


fac.full = _full


def _like(fill):
    def f(a, dtype=None, order="K", subok=True, shape=None):
        if (dtype is None and is_sym_arr(np.asarray(a) if not isinstance(a, np.ndarray) else a)) or (
                dtype is not None and _is_floatish(dtype)):
            shp = np.shape(a) if shape is None else shape
            r = np.empty(shp, dtype=object).view(SA)
            r[...] = fill
            return r
        real = np.zeros_like if fill == 0.0 else np.ones_like
        return real(a, dtype=dtype, shape=shape)
    return f


fac.zeros_like = _like(0.0)
fac.ones_like = _like(1.0)


def _eye(N, M=None, k=0, dtype=None, **kw):
    r = np.eye(N, M, k)
    if _is_floatish(dtype):
        return obj_array(r)
    return np.eye(N, M, k, dtype=dtype)


fac.eye = _eye
fac.identity = lambda n, dtype=None: _eye(n, dtype=dtype)


def _array(obj, dtype=None, *a, **kw):
    if dtype is SymFloat or dtype is fac.float64:
        dtype = object if _has_sym(obj) else builtins.float
    elif dtype is SymIntT:
        dtype = np.int64
    if dtype is not None and not isinstance(dtype, type(None)):
        try:
            kind = np.dtype(dtype).kind
        except TypeError:
            kind = None
        if kind == "f" and _has_sym(obj):
            dtype = object
        elif kind in "iu" and _has_sym(obj):
            r = np.array(obj, dtype=object, *a, **kw)
            flat = r.ravel().tolist()
            if all(isinstance(v, (SymInt, int, np.integer)) for v in flat):
                if any(isinstance(v, SymInt) and not v.is_constant() for v in flat):
                    return wrap(r)
                return np.array([int(v) for v in flat], dtype=dtype).reshape(r.shape)
            return wrap(r).astype(dtype)
    r = np.array(obj, dtype, *a, **kw)
    return _wrapres(r) if r.ndim else wrap(r)


fac.array = _array


def _asarray(obj, dtype=None, *a, **kw):
    if isinstance(obj, np.ndarray) and dtype is None:
        return wrap(obj)
    return _array(obj, dtype, *a, **kw) if dtype is not None else wrap(np.asarray(obj, *a, **kw))


fac.asarray = _asarray


def _isscalar(x):
    return isinstance(x, _SYM) or np.isscalar(x)


fac.isscalar = _isscalar


# elementwise functions -----------------------------------------------------

def _elementwise(name, conc, sym, nin=1):
    real = getattr(np, name)

    def el(*xs):
        if any(isinstance(x, _SYM) for x in xs):
            return sym(*xs)
        return conc(*xs)

    uf = np.frompyfunc(el, nin, 1)

    def f(*args, **kw):
        args_ = args[:nin]
        if any(isinstance(a, _SYM) for a in args_):
            if all(not isinstance(a, np.ndarray) for a in args_):
                return el(*args_)
        if any(isinstance(a, _SYM) or is_sym_arr(a) or (isinstance(a, (list, tuple)) and _has_sym(a)) for a in args_):
            arrs = [a if isinstance(a, (np.ndarray,) + _SYM) or np.isscalar(a) else np.array(a, dtype=object) for a in args_]
            r = uf(*arrs)
            if isinstance(r, np.ndarray):
                r = wrap(r)
                if "out" in kw and kw["out"] is not None:
                    kw["out"][...] = r
                    return kw["out"]
            return r
        kw.pop("like", None)
        return real(*args, **kw)

    return f


def _sign(x):
    if isinstance(x, SymBool):
        x = x._r()
    if bool(x > 0):
        return 1.0
    if bool(x < 0):
        return -1.0
    return 0.0


def _max2(x, y):
    xs, ys = (isinstance(x, float) and x != x), (isinstance(y, float) and y != y)
    if xs or ys:
        return float("nan")
    return x if bool(x >= y) else y


def _min2(x, y):
    xs, ys = (isinstance(x, float) and x != x), (isinstance(y, float) and y != y)
    if xs or ys:
        return float("nan")
    return x if bool(x <= y) else y


def _sqrt(x):
    if isinstance(x, SymBool):
        return x._r()
    return x.sqrt() if isinstance(x, SymReal) else SymReal(core.toreal(x.e), None, Fraction(x.v)).sqrt()


def _exp(x):
    return core.cur().hooks.exp(x)


def _log(x):
    return core.cur().hooks.log(x)


def _floor(x):
    r = core.floor(x)
    return SymReal(core.toreal(r.e), None, Fraction(r.v)) if isinstance(r, SymInt) else r


def _ceil(x):
    return -_floor(-x)


fac.sqrt = _elementwise("sqrt", lambda v: math.sqrt(v) if v >= 0 else float("nan"), _sqrt)
fac.abs = _elementwise("abs", abs, abs)
fac.absolute = fac.abs
fac.fabs = fac.abs
fac.sign = _elementwise("sign", lambda v: float(np.sign(v)), _sign)
fac.isinf = _elementwise("isinf", lambda v: bool(np.isinf(v)), lambda x: False)
fac.isnan = _elementwise("isnan", lambda v: bool(np.isnan(v)), lambda x: False)
fac.isfinite = _elementwise("isfinite", lambda v: bool(np.isfinite(v)), lambda x: True)
fac.maximum = _elementwise("maximum", lambda x, y: max(x, y) if x == x and y == y else float("nan"), _max2, 2)
fac.minimum = _elementwise("minimum", lambda x, y: min(x, y) if x == x and y == y else float("nan"), _min2, 2)
fac.exp = _elementwise("exp", math.exp, _exp)
fac.log = _elementwise("log", lambda v: math.log(v) if v > 0 else (float("-inf") if v == 0 else float("nan")), _log)
fac.floor = _elementwise("floor", math.floor, _floor)
fac.ceil = _elementwise("ceil", math.ceil, _ceil)
fac.square = _elementwise("square", lambda v: v * v, lambda x: x * x)
fac.power = _elementwise("power", lambda x, y: x ** y, lambda x, y: x ** y, 2)
fac.float_power = fac.power
fac.negative = _elementwise("negative", lambda v: -v, lambda x: -x)
fac.reciprocal = _elementwise("reciprocal", lambda v: 1.0 / v, lambda x: 1.0 / x)
fac.log1p = _elementwise("log1p", math.log1p, lambda x: _log(1 + x))
fac.real = lambda a: a
fac.conj = lambda a: a
fac.conjugate = fac.conj


def _isreal(a):
    if _has_sym(a):
        return np.ones(np.shape(a), dtype=bool) if np.ndim(a) else True
    return np.isreal(a)


fac.isreal = _isreal
fac.isrealobj = lambda a: True if _has_sym(a) else np.isrealobj(a)
fac.iscomplexobj = lambda a: False if _has_sym(a) else np.iscomplexobj(a)


def _logical(fn):
    def f(a, b=None, **kw):
        if b is None:
            return fn(asbool(a))
        return fn(asbool(a), asbool(b))
    return f


fac.logical_and = _logical(np.logical_and)
fac.logical_or = _logical(np.logical_or)
fac.logical_xor = _logical(np.logical_xor)
fac.logical_not = _logical(np.logical_not)


def _where(cond, *xy):
    cond = asbool(cond) if isinstance(cond, np.ndarray) and cond.dtype == object else cond
    if isinstance(cond, _SYM):
        cond = bool(cond)
    return _wrapres(np.where(cond, *xy))


fac.where = _where
fac.nonzero = lambda a: np.nonzero(asbool(a) if is_sym_arr(a) else a)
fac.flatnonzero = lambda a: np.flatnonzero(asbool(a) if is_sym_arr(a) else a)
fac.count_nonzero = lambda a, *r, **kw: np.count_nonzero(asbool(a) if is_sym_arr(np.asarray(a)) else a, *r, **kw)
fac.any = lambda a, *r, **kw: np.any(asbool(a) if is_sym_arr(np.asarray(a)) else a, *r, **kw)
fac.all = lambda a, *r, **kw: np.all(asbool(a) if is_sym_arr(np.asarray(a)) else a, *r, **kw)


def _prod(a, axis=None, dtype=None, out=None, keepdims=np._NoValue, initial=np._NoValue, where=np._NoValue):
    kw = {}
    if keepdims is not np._NoValue:
        kw["keepdims"] = keepdims
    if where is not np._NoValue:
        kw["where"] = where
        if initial is np._NoValue and _has_sym(a):
            initial = 1
    if initial is not np._NoValue:
        kw["initial"] = initial
    if dtype is SymIntT:
        dtype = np.int64
    return _wrapres(np.prod(a, axis=axis, dtype=dtype, out=out, **kw))


fac.prod = _prod


def _sum(a, axis=None, dtype=None, out=None, **kw):
    if dtype is SymIntT:
        dtype = np.int64
    if isinstance(a, np.ndarray) and a.dtype == object and a.size == 0 and axis is None:
        return np.float64(0.0)
    r = np.sum(a, axis=axis, dtype=dtype, out=out, **kw)
    if isinstance(r, np.ndarray) and r.dtype == object and r.size:
        # empty reductions along an axis yield int 0 objects; fine (0 is the additive identity)
        pass
    return _wrapres(r)


fac.sum = _sum


def _argsort(a, axis=-1, kind=None, order=None, **kw):
    if is_sym_arr(np.asarray(a)):
        arr = np.asarray(a)
        if arr.ndim == 1:
            return np.array(_stable_argsort(arr.tolist()), dtype=np.intp)
        return np.apply_along_axis(lambda v: np.array(_stable_argsort(v.tolist()), dtype=np.intp), axis, arr).astype(np.intp)
    return np.argsort(a, axis=axis, kind=kind, order=order, **kw)


def _stable_argsort(vals):
    """insertion sort on symbolic comparisons (stable; each comparison is a decision)"""
    idx = []
    for i, v in enumerate(vals):
        j = len(idx)
        while j > 0 and bool(vals[idx[j - 1]] > v):
            j -= 1
        idx.insert(j, i)
    return idx


fac.argsort = _argsort


def _sort(a, axis=-1, **kw):
    if is_sym_arr(np.asarray(a)):
        arr = np.asarray(a)
        if arr.ndim == 1:
            return wrap(arr[_argsort(arr)])
        idx = _argsort(arr, axis=axis)
        return wrap(np.take_along_axis(arr, idx, axis=axis))
    return np.sort(a, axis=axis, **kw)


fac.sort = _sort


def _argmax(a, axis=None, **kw):
    arr = np.asarray(a)
    if arr.dtype == object:
        if axis is None:
            flat = arr.ravel().tolist()
            b = 0
            for i in range(1, len(flat)):
                if bool(flat[i] > flat[b]):
                    b = i
            return b
        return np.apply_along_axis(lambda v: _argmax(v), axis, arr).astype(np.intp)
    return np.argmax(a, axis=axis, **kw)


def _argmin(a, axis=None, **kw):
    arr = np.asarray(a)
    if arr.dtype == object:
        if axis is None:
            flat = arr.ravel().tolist()
            if not flat:
                raise ValueError("attempt to get argmin of an empty sequence")
            b = 0
            for i in range(1, len(flat)):
                if bool(flat[i] < flat[b]):
                    b = i
            return b
        return np.apply_along_axis(lambda v: _argmin(v), axis, arr).astype(np.intp)
    return np.argmin(a, axis=axis, **kw)


fac.argmax = _argmax
fac.argmin = _argmin


def _reduce_minmax(fn2, name):
    real = getattr(np, name)

    def f(a, axis=None, **kw):
        arr = np.asarray(a)
        if arr.dtype == object:
            if axis is None:
                flat = arr.ravel().tolist()
                if not flat:
                    raise ValueError("zero-size array to reduction operation which has no identity")
                return functools.reduce(fn2, flat)
            r = np.apply_along_axis(lambda v: np.array([functools.reduce(fn2, v.tolist())], dtype=object), axis, arr)
            r = np.squeeze(r, axis=axis)
            if kw.get("keepdims"):
                r = np.expand_dims(r, axis)
            return _wrapres(r)
        return real(a, axis=axis, **kw)
    return f


fac.max = _reduce_minmax(_max2, "max")
fac.min = _reduce_minmax(_min2, "min")
fac.amax = fac.max
fac.amin = fac.min


def _allclose(a, b, rtol=1e-05, atol=1e-08, equal_nan=False):
    if _has_sym(a) or _has_sym(b):
        raise Unmodelled("allclose on symbolic values")
    return np.allclose(a, b, rtol=rtol, atol=atol, equal_nan=equal_nan)


fac.allclose = _allclose


def _isclose(a, b, rtol=1e-05, atol=1e-08, equal_nan=False):
    if _has_sym(a) or _has_sym(b):
        raise Unmodelled("isclose on symbolic values")
    return np.isclose(a, b, rtol=rtol, atol=atol, equal_nan=equal_nan)


fac.isclose = _isclose


def _array_equal(a, b, **kw):
    if _has_sym(a) or _has_sym(b):
        a, b = np.asarray(a), np.asarray(b)
        if a.shape != b.shape:
            return False
        for x, y in zip(a.ravel().tolist(), b.ravel().tolist()):
            if not bool(x == y):
                return False
        return True
    return np.array_equal(a, b, **kw)


fac.array_equal = _array_equal


def _unique(ar, return_index=False, return_inverse=False, return_counts=False, axis=None, **kw):
    arr = np.asarray(ar)
    if arr.dtype != object:
        return np.unique(ar, return_index=return_index, return_inverse=return_inverse,
                         return_counts=return_counts, axis=axis, **kw)
    # documented semantics: sorted unique rows/elements, first occurrence index, inverse map
    if axis is None:
        items = [(v,) for v in arr.ravel().tolist()]
    elif axis == 0:
        items = [tuple(r.tolist()) if isinstance(r, np.ndarray) else (r,) for r in arr]
    else:
        raise Unmodelled("unique along axis != 0")

    def less(p, q):
        for x, y in zip(p, q):
            if bool(x < y):
                return True
            if bool(x > y):
                return False
        return False

    def same(p, q):
        return all(bool(x == y) for x, y in zip(p, q))

    uniq = []  # list of (item, first_index, count)
    inv = [0] * len(items)
    order = []
    for i, it in enumerate(items):
        for j, (u, fi, c) in enumerate(uniq):
            if same(u, it):
                uniq[j] = (u, fi, c + 1)
                inv[i] = j
                break
        else:
            uniq.append((it, i, 1))
            inv[i] = len(uniq) - 1
    # sort uniq
    perm = []
    for j in range(len(uniq)):
        k = len(perm)
        while k > 0 and less(uniq[j][0], uniq[perm[k - 1]][0]):
            k -= 1
        perm.insert(k, j)
    pos = {j: k for k, j in enumerate(perm)}
    if axis is None:
        vals = np.empty(len(perm), dtype=object)
        for k, j in enumerate(perm):
            vals[k] = uniq[j][0][0]
    else:
        vals = np.empty((len(perm),) + arr.shape[1:], dtype=object)
        for k, j in enumerate(perm):
            vals[k] = arr[uniq[j][1]]
    vals = _maybe_int(vals)
    out = [wrap(vals)]
    if return_index:
        out.append(np.array([uniq[j][1] for j in perm], dtype=np.intp))
    if return_inverse:
        out.append(np.array([pos[j] for j in inv], dtype=np.intp))
    if return_counts:
        out.append(np.array([uniq[j][2] for j in perm], dtype=np.intp))
    return out[0] if len(out) == 1 else tuple(out)


def _maybe_int(a):
    flat = a.ravel().tolist()
    if flat and all(isinstance(v, (int, np.integer)) and not isinstance(v, bool) for v in flat):
        return np.array(flat, dtype=np.int64).reshape(a.shape)
    return a


fac.unique = _unique


def _ravel_multi_index(multi_index, dims, mode="raise", order="C"):
    cols = [np.asarray(c) for c in multi_index]
    if not any(c.dtype == object for c in cols):
        return np.ravel_multi_index(multi_index, dims, mode=mode, order=order)
    dims = [int(d) for d in dims]
    n = len(dims)
    strides = [1] * n
    if order == "F":
        for k in range(1, n):
            strides[k] = strides[k - 1] * dims[k - 1]
    else:
        for k in range(n - 2, -1, -1):
            strides[k] = strides[k + 1] * dims[k + 1]
    out = np.empty(cols[0].shape, dtype=object)
    for pos in np.ndindex(*cols[0].shape):
        tot = 0
        for k in range(n):
            v = cols[k][pos]
            if not bool((v >= 0) & (v < dims[k])):
                raise ValueError("invalid entry in coordinates array")
            tot = tot + v * strides[k]
        out[pos] = tot
    return wrap(out) if out.ndim else out[()]


def _unravel_index(indices, shape, order="C"):
    idx = np.asarray(indices)
    if idx.dtype != object:
        return np.unravel_index(indices, shape, order=order)
    shape = [int(d) for d in shape]
    size = int(np.prod(shape))
    n = len(shape)
    outs = [np.empty(idx.shape, dtype=object) for _ in range(n)]
    for pos in np.ndindex(*idx.shape):
        v = idx[pos]
        if not bool((v >= 0) & (v < size)):
            raise ValueError("index out of bounds")
        rem = v
        ks = range(n) if order == "F" else range(n - 1, -1, -1)
        for k in ks:
            outs[k][pos] = rem % shape[k]
            rem = rem // shape[k]
    return tuple(wrap(o) if o.ndim else o[()] for o in outs)


fac.ravel_multi_index = _ravel_multi_index
fac.unravel_index = _unravel_index


def _round(a, decimals=0, out=None):
    if _has_sym(a):
        raise Unmodelled("round on symbolic values")
    return np.round(a, decimals, out)


fac.round = _round
fac.around = _round


def _cumsum(a, axis=None, dtype=None, out=None):
    if dtype is SymIntT:
        dtype = np.int64
    return _wrapres(np.cumsum(a, axis=axis, dtype=dtype, out=out))


fac.cumsum = _cumsum


def _mean(a, axis=None, **kw):
    arr = np.asarray(a)
    if arr.dtype == object:
        s = np.sum(arr, axis=axis)
        n = arr.size if axis is None else arr.shape[axis]
        return _wrapres(s / n)
    return np.mean(a, axis=axis, **kw)


fac.mean = _mean
fac.average = _mean
def _fromfile(file, dtype=builtins.float, count=-1, sep="", **kw):
    if sep == "":
        raise Unmodelled("binary fromfile")
    pos = file.tell()
    rest = file.read()
    toks, consumed, i, n = [], 0, 0, len(rest)
    while i < n and (count < 0 or len(toks) < count):
        while i < n and rest[i].isspace():
            i += 1
        j = i
        while j < n and not rest[j].isspace():
            j += 1
        if j > i:
            try:
                toks.append(parse_token(rest[i:j]))
            except ValueError:
                break
            consumed = j
        i = j
    # like numpy's text reader, swallow the separator (any whitespace) after the last item read
    while consumed < n and rest[consumed].isspace():
        consumed += 1
    file.seek(pos + consumed)
    if any(isinstance(t, _SYM) for t in toks):
        return obj_array(toks)
    return obj_array(toks) if toks else np.array([], dtype=builtins.float)


fac.fromfile = _fromfile
fac.finfo = np.finfo
fac.iinfo = np.iinfo
fac.dtype = np.dtype
fac.errstate = np.errstate
fac.ndindex = np.ndindex
fac.ndenumerate = np.ndenumerate
fac.s_ = np.s_
fac.ix_ = np.ix_
fac.vectorize = np.vectorize
fac.frompyfunc = np.frompyfunc
fac.issubdtype = lambda a, b: (np.issubdtype(a, np.number) if isinstance(b, _Meta) and b._real is np.number
                              else np.issubdtype(a, b._real if isinstance(b, _Meta) else b)) or (
    isinstance(b, _Meta) and b._obj and np.dtype(a) == object)

# linalg --------------------------------------------------------------------


class LinalgFacade(types.ModuleType):
    def __getattr__(self, k):
        v = getattr(np.linalg, k)
        if callable(v) and not isinstance(v, type):
            @functools.wraps(v)
            def w(*a, **kw):
                return _wrapres(v(*a, **kw))
            return w
        return v


la = LinalgFacade("linalg_facade")
fac.linalg = la
la.LinAlgError = np.linalg.LinAlgError


def det(A):
    n = A.shape[0]
    if n == 1:
        return A[0, 0]
    if n == 2:
        return A[0, 0] * A[1, 1] - A[0, 1] * A[1, 0]
    s = 0
    for j in range(n):
        minor = np.delete(np.delete(A, 0, axis=0), j, axis=1)
        s = s + ((-1) ** j) * A[0, j] * det(minor)
    return s


SOLVE_HOOK = [None]  # opaque-numerics stub installed by harnesses (C09/C18)


def _solve(A, B):
    if SOLVE_HOOK[0] is not None:
        return SOLVE_HOOK[0](A, B)
    if not (is_sym_arr(np.asarray(A)) or is_sym_arr(np.asarray(B))):
        return np.linalg.solve(A, B)
    A = np.asarray(A, dtype=object)
    B = np.asarray(B, dtype=object)
    n = A.shape[0]
    d = det(A)
    if not bool(d != 0):
        raise np.linalg.LinAlgError("Singular matrix")
    vec = B.ndim == 1
    if vec:
        B = B[:, None]
    X = np.empty(B.shape, dtype=object)
    for c in range(B.shape[1]):
        for i in range(n):
            Ai = A.copy()
            Ai[:, i] = B[:, c]
            X[i, c] = det(Ai) / d
    return wrap(X[:, 0] if vec else X)


la.solve = _solve


def _norm(x, ord=None, axis=None, keepdims=False):
    arr = np.asarray(x)
    if arr.dtype != object:
        return np.linalg.norm(x, ord=ord, axis=axis, keepdims=keepdims)
    if axis is None:
        flat = arr.ravel().tolist()
        if ord is None or ord == 2 and arr.ndim == 1 or ord == "fro":
            from . import poly
            if poly.ON[0] and len(flat) == 1 and isinstance(flat[0], _SYM):
                return abs(flat[0])  # canonical mode: ||(v)|| = |v| without a root variable (keeps terms univariate)
            s = 0
            for v in flat:
                s = s + v * v
            return fac.sqrt(s) if isinstance(s, _SYM) else np.float64(math.sqrt(s))
        if ord == 1 and arr.ndim == 1:
            s = 0
            for v in flat:
                s = s + abs(v)
            return _np_scalar(s)
        if ord == np.inf and arr.ndim == 1:
            return functools.reduce(_max2, [abs(v) for v in flat])
        raise Unmodelled(f"norm ord={ord} ndim={arr.ndim}")
    r = np.apply_along_axis(lambda v: np.array([_norm(v, ord=ord)], dtype=object), axis, arr)
    r = np.squeeze(r, axis=axis)
    if keepdims:
        r = np.expand_dims(r, axis)
    return _wrapres(r)


la.norm = _norm

# numpy_groupies.aggregate stand-in ------------------------------------------


def accumarray(group_idx, a, func="sum", size=None, fill_value=0, dtype=None, axis=None, **kw):
    group_idx = np.asarray(group_idx)
    if not _has_sym(a) and not callable(func):
        from numpy_groupies import aggregate
        return aggregate(group_idx, a, func=func, size=size, fill_value=fill_value, dtype=dtype, axis=axis, **kw)
    a = np.asarray(a, dtype=object)
    if a.ndim == 0:
        # numpy_groupies accepts a scalar `a` only for sum / prod / len; other named reducers raise ValueError and a
        # generic callable fails on indexing the 0-d array (pyttb reaches this through np.squeeze of a 1 x 1 value column)
        if func in ("sum", sum, np.sum, "add", "prod", np.prod, "len", len):
            a = np.full(group_idx.shape[-1:], a.item(), dtype=object)
        elif callable(func) and func not in (max, np.max, np.amax, min, np.min, np.amin, np.mean, np.std, np.var, np.any, np.all):
            raise IndexError("too many indices for array: array is 0-dimensional, but 1 were indexed")
        else:
            raise ValueError("scalar inputs are supported only for 'sum', 'prod' and 'len'")
    if group_idx.ndim == 2:
        # multi-dimensional group index (ndim x n)
        dims = tuple(int(s) for s in size) if size is not None else tuple(int(group_idx[k].max()) + 1 for k in range(group_idx.shape[0]))
        lin = np.ravel_multi_index(tuple(group_idx), dims)
        flat = accumarray(lin, a, func=func, size=int(np.prod(dims)), fill_value=fill_value)
        return wrap(flat.reshape(dims))
    if size is None:
        n = int(group_idx.max()) + 1 if group_idx.size else 0
    else:
        n = int(size[0]) if isinstance(size, (tuple, list, np.ndarray)) else int(size)
    out = np.empty(n, dtype=object)
    out[...] = fill_value
    groups = {}
    for g, v in zip(group_idx.tolist(), a.tolist()):
        groups.setdefault(g, []).append(v)
    for g, vs in groups.items():
        if func in ("sum", sum, np.sum, "add"):
            s = vs[0]
            for v in vs[1:]:
                s = s + v
            out[g] = s
        elif func in ("max", max, np.max, np.amax):
            out[g] = functools.reduce(_max2, vs)
        elif func in ("min", min, np.min, np.amin):
            out[g] = functools.reduce(_min2, vs)
        elif func in ("prod", np.prod):
            out[g] = functools.reduce(lambda x, y: x * y, vs)
        elif callable(func):
            out[g] = func(wrap(np.array(vs + [None], dtype=object)[:-1]))
        else:
            raise Unmodelled(f"accumarray func {func}")
    return wrap(out)


# scipy.sparse stand-in -------------------------------------------------------


def _is_ij(x):
    if isinstance(x, tuple):
        return len(x) == 2
    return isinstance(x, (np.ndarray, list)) and len(x) == 2 and np.ndim(x) == 2


class SymCOO:
    """COO triple store with the part of the scipy.sparse contract pyttb uses."""

    def __init__(self, arg1, shape=None, dtype=None):
        if isinstance(arg1, tuple) and len(arg1) == 2 and _is_ij(arg1[1]):
            data, (row, col) = arg1
            self.data = wrap(np.asarray(data, dtype=object).ravel())
            self.row = np.asarray(row, dtype=np.intp).ravel()
            self.col = np.asarray(col, dtype=np.intp).ravel()
            if shape is None:
                shape = (int(self.row.max()) + 1, int(self.col.max()) + 1)
            self.shape = tuple(int(s) for s in shape)
            if self.row.size and (self.row.max() >= self.shape[0] or self.col.max() >= self.shape[1]
                                  or self.row.min() < 0 or self.col.min() < 0):
                raise ValueError("row/column index exceeds matrix dimensions")
        elif isinstance(arg1, tuple) and shape is None:
            self.shape = tuple(int(s) for s in arg1)
            self.data = wrap(np.empty(0, dtype=object))
            self.row = np.empty(0, dtype=np.intp)
            self.col = np.empty(0, dtype=np.intp)
        elif isinstance(arg1, SymCOO):
            self.data, self.row, self.col, self.shape = arg1.data.copy(), arg1.row.copy(), arg1.col.copy(), arg1.shape
        else:
            arr = np.asarray(arg1)
            nz = np.nonzero(asbool(arr) if arr.dtype == object else arr)
            self.shape = arr.shape
            self.row, self.col = nz[0].astype(np.intp), nz[1].astype(np.intp)
            self.data = wrap(np.asarray(arr[nz], dtype=object))
        self.dtype = np.dtype(object)
        self.ndim = 2
        self.format = "coo"

    @property
    def nnz(self):
        return int(self.data.size)

    def toarray(self, order=None):
        out = np.empty(self.shape, dtype=object, order=order or "C")
        out[...] = 0.0
        for v, i, j in zip(self.data.tolist(), self.row.tolist(), self.col.tolist()):
            out[i, j] = out[i, j] + v
        return wrap(out)

    todense = toarray

    def tocoo(self, copy=False):
        return self

    def tocsr(self, copy=False):
        return self

    def transpose(self, *a, **kw):
        return SymCOO((self.data, (self.col, self.row)), shape=(self.shape[1], self.shape[0]))

    @property
    def T(self):
        return self.transpose()

    def copy(self):
        return SymCOO(self)

    def nonzero(self):
        keep = asbool(self.data) if self.data.size else np.zeros(0, dtype=bool)
        return self.row[keep], self.col[keep]

    def dot(self, other):
        if isinstance(other, SymCOO):
            return SymCOO(self.toarray() @ other.toarray())
        return wrap(self.toarray() @ np.asarray(other))

    __matmul__ = dot

    def __rmatmul__(self, other):
        return wrap(np.asarray(other) @ self.toarray())

    def __mul__(self, other):
        if np.isscalar(other) or isinstance(other, _SYM):
            return SymCOO((self.data * other, (self.row, self.col)), shape=self.shape)
        return self.dot(other)

    def sum(self, axis=None):
        return fac.sum(self.toarray(), axis=axis)

    def asformat(self, *a, **kw):
        return self


class SparseFacade(types.ModuleType):
    def __getattr__(self, k):
        import scipy.sparse
        return getattr(scipy.sparse, k)


def _real_sparse():
    import scipy.sparse
    return scipy.sparse


class _COOMeta(type):
    def __instancecheck__(cls, inst):
        return isinstance(inst, SymCOO) or isinstance(inst, _real_sparse().coo_matrix)

    def __call__(cls, arg1, shape=None, dtype=None, **kw):
        data = arg1[0] if isinstance(arg1, tuple) and len(arg1) == 2 and _is_ij(arg1[1]) else arg1
        if _has_sym(data) or SPARSE_ALWAYS_SYM[0]:
            return SymCOO(arg1, shape=shape)
        return _real_sparse().coo_matrix(arg1, shape=shape, dtype=dtype, **kw)


SPARSE_ALWAYS_SYM = [True]


class coo_matrix(metaclass=_COOMeta):
    @staticmethod
    def dot(a, b):
        if isinstance(a, SymCOO):
            return a.dot(b)
        if isinstance(b, SymCOO):
            return wrap(np.asarray(a) @ b.toarray())
        return _real_sparse().coo_matrix.dot(a, b)


class _SpMeta(type):
    def __instancecheck__(cls, inst):
        return isinstance(inst, SymCOO) or isinstance(inst, _real_sparse().spmatrix)


class spmatrix(metaclass=_SpMeta):
    pass


sparse_fac = SparseFacade("sparse_facade")
sparse_fac.coo_matrix = coo_matrix
sparse_fac.spmatrix = spmatrix
sparse_fac.issparse = lambda x: isinstance(x, SymCOO) or _real_sparse().issparse(x)


def csr_array(arg1, shape=None, dtype=None, **kw):
    return SymCOO(arg1, shape=shape)


# builtin shadows -------------------------------------------------------------


class _FloatMeta(type):
    def __instancecheck__(cls, inst):
        return isinstance(inst, builtins.float) or isinstance(inst, SymReal)

    def __call__(cls, x=0.0):
        if isinstance(x, SymReal):
            return x
        if isinstance(x, SymBool):
            return x._r()
        if isinstance(x, SymInt):
            return SymReal(core.toreal(x.e), None, Fraction(x.v))
        if isinstance(x, np.ndarray) and x.dtype == object and x.size == 1:
            return cls(x.reshape(-1)[0])
        if getattr(x, "_symx_passthrough", False):
            return x
        return builtins.float(x)

    def __eq__(cls, other):
        return other is cls or other is builtins.float

    def __hash__(cls):
        return id(cls)


class SymFloat(metaclass=_FloatMeta):
    dtype = np.dtype(object)  # np.dtype(SymFloat) -> object


class _IntMeta(type):
    def __instancecheck__(cls, inst):
        return isinstance(inst, builtins.int) or isinstance(inst, SymInt)

    def __call__(cls, x=0, *a):
        if isinstance(x, SymInt):
            return x
        if isinstance(x, SymReal):
            if x.is_constant():
                return builtins.int(x.v)
            return _trunc(x)
        if isinstance(x, np.ndarray) and x.dtype == object and x.size == 1:
            return cls(x.reshape(-1)[0])
        return builtins.int(x, *a)

    def __eq__(cls, other):
        return other is cls or other is builtins.int

    def __hash__(cls):
        return id(cls)


class SymIntT(metaclass=_IntMeta):
    dtype = np.dtype(np.int64)


# patching ----------------------------------------------------------------------

PRINTED = []


def _quiet_print(*a, **k):
    """print() of the pyttb modules: recorded, not written (formatting is not the subject); prints into a file
    (export_data writes its headers that way) go through"""
    if k.get("file") is not None:
        return print(*a, **k)
    if len(PRINTED) < 1000:
        PRINTED.append(a)


_PATCH_NAMES = {
    "print": lambda: _quiet_print,
    "np": lambda: fac,
    "accumarray": lambda: accumarray,
    "sparse": lambda: sparse_fac,
    "csr_array": lambda: csr_array,
    "float": lambda: SymFloat,
    "int": lambda: SymIntT,
}


def pyttb_modules():
    import pyttb  # noqa
    import pyttb.gcp.fg  # noqa
    import pyttb.gcp.fg_est  # noqa
    import pyttb.gcp.optimizers  # noqa
    import pyttb.gcp.samplers  # noqa
    return [m for n, m in list(sys.modules.items())
            if (n == "pyttb" or n.startswith("pyttb.")) and m is not None and hasattr(m, "__dict__")]


@contextlib.contextmanager
def patched(extra=None):
    """run with the symbolic environment installed in the pyttb modules"""
    saved = []
    mods = pyttb_modules()
    names = dict(_PATCH_NAMES)
    for m in mods:
        d = m.__dict__
        for name, mkv in names.items():
            if name in ("float", "int", "print"):
                had = name in d
                saved.append((d, name, d.get(name), had))
                d[name] = mkv()
            elif name in d:
                if name == "np" and d[name] is not np:
                    continue
                saved.append((d, name, d[name], True))
                d[name] = mkv()
        for name, val in (extra or {}).get(m.__name__, {}).items():
            saved.append((d, name, d.get(name), name in d))
            d[name] = val
    try:
        yield
    finally:
        for d, name, old, had in reversed(saved):
            if had:
                d[name] = old
            else:
                d.pop(name, None)
