"""symx.runner -- obligation registry, per-obligation driver (explore, validate, replay),
process pool, evidence, known findings, exit codes."""
from __future__ import annotations

import json
import multiprocessing as mp
import re
import os
import random
import sys
import time
import traceback
from fractions import Fraction

VERIF = os.path.dirname(os.path.dirname(os.path.abspath(__file__)))
REPO = os.environ.get("VERIF_REPO", "/repo")
if REPO not in sys.path:
    sys.path.insert(0, REPO)

REGISTRY = {}  # prop -> list[Obligation]
# properties whose complete (thorough) configuration set runs in well under a minute: the quick tier runs all of it
PROMOTE_ALL = {"C01", "C05", "C06", "C07", "C12", "C14", "C16", "C19", "C20"}
MAX_CLASSES = 400


class Obligation:
    def __init__(self, prop, name, body, params, tier, gating, generic, max_paths, rlimit, wall_s, bounds,
                 validate, min_paths, goal_rlimit, expect_fail, env_stub=False):
        self.prop = prop
        self.name = name
        self.body = body
        self.params = params
        self.tier = tier
        self.gating = gating
        self.generic = generic
        self.max_paths = max_paths
        self.rlimit = rlimit
        self.goal_rlimit = goal_rlimit
        self.wall_s = wall_s
        self.bounds = bounds
        self.validate = validate
        self.min_paths = min_paths
        self.expect_fail = expect_fail
        self.env_stub = env_stub
        self.canon = False
        ptxt = ",".join(f"{k}={_fmt(v)}" for k, v in params.items())
        self.id = f"{prop}/{name}" + (f"[{ptxt}]" if ptxt else "")


def _fmt(v):
    if isinstance(v, (tuple, list)):
        return "x".join(_fmt(x) for x in v) if all(isinstance(x, int) for x in v) and v else "(" + ";".join(_fmt(x) for x in v) + ")"
    if callable(v):
        return getattr(v, "__name__", "fn")
    return str(v)


def ob(prop, params=None, tier="quick", gating=True, generic=False, max_paths=6000, rlimit=3_000_000,
       wall_s=900.0, bounds="", validate=True, min_paths=1, goal_rlimit=30_000_000, name=None, expect_fail=False, env_stub=False,
       canon=False):
    """decorator: register body(E, **p) once per parameter dict in `params`"""
    def deco(fn):
        plist = params if params is not None else [{}]
        for p in plist:
            p = dict(p)
            t = p.pop("_tier", tier)
            if prop in PROMOTE_ALL and gating:
                t = "quick"
            mpaths = p.pop("_max_paths", max_paths)
            REGISTRY.setdefault(prop, []).append(
                Obligation(prop, name or fn.__name__, fn, p, t, gating, generic, mpaths, rlimit, wall_s,
                           bounds or (fn.__doc__ or "").strip().split("\n")[0], validate, min_paths, goal_rlimit,
                           expect_fail, env_stub))
            REGISTRY[prop][-1].canon = canon
        return fn
    return deco


# ------------------------------------------------------------------------------------------


def _funcs_profile(store):
    root = os.path.join(REPO, "pyttb")

    def prof(frame, event, arg):
        if event == "call":
            co = frame.f_code
            if co.co_filename.startswith(root):
                store.add(f"{os.path.relpath(co.co_filename, root)}:{co.co_qualname}")
    return prof


def run_concrete(o: Obligation, assignment, seed=0):
    """run the obligation body on the unpatched pyttb with concrete inputs; -> Env"""
    from . import core, harness
    E = harness.Env("conc", assignment=assignment, seed=seed)
    E.escaped = None
    import contextlib
    import io
    try:
        with contextlib.redirect_stdout(io.StringIO()):
            o.body(E, **o.params)
    except core.Cut:
        pass
    except core.Abort:
        E.aborted = True
    except Exception as e:
        E.escaped = e
        E._fail(f"exception:{type(e).__name__}", "escaped", f"{type(e).__name__}: {e}"[:300], site=harness._site_of(e))
    return E


def run_obligation(o: Obligation, seed=0):
    """-> result dict (picklable)"""
    import numpy as np
    import pyttb  # noqa: F401  (imported from REPO's working tree)
    from . import core, explore, harness, npenv

    t0 = time.time()
    stats = harness.Stats()
    funcs = set()
    fails = {}
    npaths_failing = {}
    unknowns = []
    samples = []  # (assignment, record) for validation
    npaths = [0]
    first = [True]
    sample_goal = [None]
    rng = random.Random(seed)
    inputs_seen = {}

    def path_fn(p):
        E = harness.Env("sym", path=p, stats=stats, rlimit=o.goal_rlimit, seed=seed)
        prof = first[0]
        first[0] = False
        if prof:
            sys.setprofile(_funcs_profile(funcs))
        try:
            try:
                o.body(E, **o.params)
            finally:
                if prof:
                    sys.setprofile(None)
        except core.Cut:
            pass
        except core.Unmodelled as e:
            unknowns.append(f"unmodelled: {e}")
            return
        except (core.Abort, core.Mismatch):
            raise
        except RecursionError as e:
            unknowns.append("recursion limit in substrate")
            return
        except Exception as e:
            E._fail(f"exception:{type(e).__name__}", "escaped", f"{type(e).__name__}: {e}"[:300], site=harness._site_of(e))
        npaths[0] += 1
        inputs_seen.update(E.inputs)
        for f in E.fails:
            key = (f.kind, f.label, f.site)
            d = fails.setdefault(key, {})
            npaths_failing[key] = npaths_failing.get(key, 0) + 1
            c = f.cls()
            if c not in d:
                if len(d) < MAX_CLASSES:
                    d[c] = [f, 1]
            else:
                d[c][1] += 1
        unknowns.extend(E.unknowns)
        # witness validation sample: the first 8 paths, then every 8th path (and a 2% random share), at most 96 per
        # obligation -- each is pushed through the unpatched code and must agree with the symbolic run
        if o.validate and p.exact and not E.fails and (len(samples) < 8 or npaths[0] % 8 == 0 or rng.random() < 0.02) and len(samples) < 96:
            asg = {k: str(Fraction(p.assign[k])) for k in E.inputs if k in p.assign}
            samples.append((asg, [(l, [_tofloat(v) for v in vals]) for l, vals in E.record]))

    ex = explore.Explorer(max_paths=o.max_paths, rlimit=o.rlimit, generic=o.generic, seed=seed, wall_s=o.wall_s)
    from . import poly
    poly.ON[0] = bool(o.canon)
    poly.reset()
    core.POSVARS.clear()
    core._SIGN_MEMO.clear()
    budget = None
    sys.setrecursionlimit(20000)
    sys.set_int_max_str_digits(0)
    with npenv.patched():
        try:
            ex.run(path_fn)
        except explore.Budget as e:
            budget = str(e)
    unknowns.extend(f"undecided branch side: {u}" for u in ex.undecided)

    # --- validation of the symbolic substrate: same witness through the unpatched code
    validated = 0
    val_errors = []
    for asg, rec in samples:
        Ec = run_concrete(o, asg, seed)
        if Ec.fails:
            # a failure of the real code on a path witness is a finding in its own right (e.g. dtype-level
            # facts the object-array encoding cannot see); it is reported like any replayed counterexample
            for cf in Ec.fails:
                fails.setdefault((cf.kind, cf.label, cf.site), {}).setdefault(cf.cls(), [cf, 1])
            continue
        crec = [(l, [_tofloat(v) for v in vals]) for l, vals in Ec.record]
        if len(crec) != len(rec):
            val_errors.append(f"record length differs: sym {len(rec)} conc {len(crec)}")
            continue
        ok = True
        for (l1, v1), (l2, v2) in zip(rec, crec):
            if l1 != l2 or len(v1) != len(v2) or any(not harness._close(a, b, 1e-6, 1e-8) for a, b in zip(v1, v2)):
                ok = False
                val_errors.append(f"values differ at '{l1}': sym {v1[:4]} conc {v2[:4]} (assignment {asg})")
                break
        validated += ok

    # --- replay every distinct failure (one per input class) on the unpatched code
    out_fails = []
    for key, classes in fails.items():
        first = None
        cls_res = {}
        for c, (f, count) in classes.items():
            Ec = run_concrete(o, f.assignment, seed)
            rep = None
            for cf in Ec.fails:
                if cf.kind == f.kind and (cf.label == f.label or f.label == "escaped" or cf.label == "escaped"):
                    rep = cf
                    break
            if rep is None:
                for cf in Ec.fails:
                    if cf.label == f.label:
                        rep = cf
                        break
            if rep is None and Ec.fails:
                # the real code fails on this input, though at another assertion than the symbolic run (e.g. the
                # substrate could not follow the code further): what is reported is the concrete failure
                rep = Ec.fails[0]
            cls_res[c] = dict(reproduced=rep is not None, assignment=f.assignment, paths=count,
                              kind=(rep.kind if rep is not None else f.kind),
                              site=((rep.site or f.site) if rep is not None else f.site),
                              detail=(rep.detail if rep is not None else f.detail)[:400])
            if first is None or (rep is not None and not first[1]):
                first = (f, rep is not None, rep)
        f, anyrep, rep = first
        j = f.to_json()
        j["paths"] = max(npaths_failing.get(key, 0), sum(v[1] for v in classes.values()))
        j["reproduced"] = all(v["reproduced"] for v in cls_res.values())
        j["classes"] = cls_res
        if rep is not None:
            j["concrete"] = rep.to_json()
            j["kind"] = rep.kind
            j["site"] = rep.site or f.site
        out_fails.append(j)

    status = "proved"
    reasons = []
    if out_fails:
        if any(cr["reproduced"] for j in out_fails for cr in j["classes"].values()):
            status = "violated"
        unrep = [j for j in out_fails if any(not cr["reproduced"] for cr in j["classes"].values())]
        if unrep and o.env_stub:
            # environment stubs (eigen-solver, ...) range over every output the contract allows; the real solver
            # need not exhibit each of them.  Classes that do not replay are listed, not reported; a goal none of
            # whose classes replays leaves the obligation inconclusive.
            for j in unrep:
                j["contract_level_only"] = [c for c, cr in j["classes"].items() if not cr["reproduced"]]
                j["classes"] = {c: cr for c, cr in j["classes"].items() if cr["reproduced"]}
            dead = [j for j in out_fails if not j["classes"]]
            out_fails = [j for j in out_fails if j["classes"]]
            if dead:
                unknowns.append("contract-level counterexample not exhibited by the real solver: " + dead[0]["label"])
        elif unrep:
            reasons.append("a solver counterexample did not reproduce on the real code (encoding or stand-in wrong?)")
            if status != "violated":
                status = "error"
        if not out_fails:
            status = "proved"
    if status == "proved":
        if budget:
            status, reasons = "inconclusive", [budget]
        elif unknowns:
            status, reasons = "inconclusive", unknowns[:5]
        elif val_errors:
            status, reasons = "error", val_errors[:3]
        elif npaths[0] < o.min_paths:
            status, reasons = "inconclusive", [f"vacuity: {npaths[0]} paths reached the assertions, expected >= {o.min_paths}"]
        elif stats.goals == 0:
            status, reasons = "inconclusive", ["vacuity: no goal was reached"]
    elif status == "violated" and (budget or unknowns):
        reasons.extend(([budget] if budget else []) + unknowns[:3])

    return dict(
        id=o.id, prop=o.prop, status=status, reasons=reasons, gating=o.gating, bounds=o.bounds, params=_jsonable(o.params),
        paths=npaths[0], decisions=ex.stats["decisions"], aborted=ex.stats["aborted"],
        flips=dict(sat=ex.stats["flips_sat"], unsat=ex.stats["flips_unsat"], unknown=ex.stats["flips_unknown"],
                   partial=ex.stats["partial_sat"], mismatches=ex.stats["mismatches"]),
        goals=stats.goals, goals_trivial=stats.goals_trivial, goal_cells=stats.goal_cells, rungs=stats.rung,
        solver_queries=stats.solver_calls + ex.stats["solver_calls"],
        solver_s=round(stats.solver_s + ex.stats["solver_s"], 3),
        validated=validated, validation_samples=len(samples), val_errors=val_errors[:3],
        failures=out_fails, functions=sorted(funcs), wall_s=round(time.time() - t0, 2),
        sample_pc=ex.sample_pc, inputs=len(inputs_seen), generic=o.generic, expect_fail=o.expect_fail,
    )


def _tofloat(v):
    if isinstance(v, Fraction):
        return float(v)
    if isinstance(v, (bool, str)) or v is None:
        return v
    try:
        return float(v)
    except (TypeError, ValueError):
        return str(v)


def _jsonable(p):
    out = {}
    for k, v in p.items():
        try:
            json.dumps(v)
            out[k] = v
        except TypeError:
            out[k] = _fmt(v)
    return out


def _worker(args):
    prop, idx, seed = args
    o = REGISTRY[prop][idx]
    try:
        return run_obligation(o, seed)
    except BaseException as e:  # noqa
        return dict(id=o.id, prop=o.prop, status="error", reasons=[f"driver crashed: {type(e).__name__}: {e}",
                                                                     traceback.format_exc()[-800:]],
                    gating=o.gating, bounds=o.bounds, params=_jsonable(o.params), paths=0, decisions=0, aborted=0,
                    flips={}, goals=0, goals_trivial=0, goal_cells=0, rungs={}, solver_queries=0, solver_s=0.0,
                    validated=0, validation_samples=0, val_errors=[], failures=[], functions=[], wall_s=0.0,
                    sample_pc=None, inputs=0, generic=o.generic, expect_fail=o.expect_fail)


# ------------------------------------------------------------------------------------------
# known findings


def load_known():
    path = os.path.join(VERIF, "known_findings.jsonl")
    out = []
    if os.path.exists(path):
        for line in open(path):
            line = line.strip()
            if line.startswith("fixed:"):
                # repaired by a "fix:" commit in /repo: recorded only, suppresses nothing
                continue
            if line and not line.startswith("#"):
                out.append(json.loads(line))
    return out


def match_known(known, prop, oid, fail, cls, nclasses=0):
    """a failure is suppressed only if obligation, kind, label, site AND its input class are listed"""
    for k in known:
        if k.get("status") != "known" or k.get("property") != prop:
            continue
        if k.get("obligation") != oid:
            continue
        if k.get("kind") != fail["kind"] or k.get("label") != fail.get("label", ""):
            continue
        if k.get("site", "") != fail.get("site", ""):
            continue
        if k.get("classes") is not None and cls not in k["classes"]:
            continue
        if k.get("detail_regex") and not re.search(k["detail_regex"], fail.get("detail", "")):
            continue
        if k.get("max_classes") is not None and nclasses > k["max_classes"]:
            continue
        if k.get("max_paths") is not None and fail.get("paths", 0) > k["max_paths"]:
            continue
        return k
    return None


# ------------------------------------------------------------------------------------------


def write_replay(prop, res, fail, n):
    d = os.path.join(VERIF, "replays")
    os.makedirs(d, exist_ok=True)
    safe = "".join(c if c.isalnum() else "_" for c in res["id"])[:80]
    path = os.path.join(d, f"{safe}__{n}.json")
    with open(path, "w") as fh:
        json.dump(dict(property=prop, obligation=res["id"], kind=fail["kind"], label=fail["label"], site=fail.get("site", ""),
                       detail=fail["detail"], assignment=fail["assignment"],
                       how="python check.py --replay <this file>  (runs the unpatched pyttb on these inputs)"), fh, indent=1)
    return path


def replay_file(path):
    spec = json.load(open(path))
    prop = spec["property"]
    load_obligations(prop)
    for o in REGISTRY[prop]:
        if o.id == spec["obligation"]:
            E = run_concrete(o, spec["assignment"])
            if E.fails:
                for f in E.fails:
                    print(f"REPRODUCED {o.id}: {f.kind} at '{f.label}' {f.site}: {f.detail}")
                return 1
            print(f"not reproduced: {o.id} passes on these inputs")
            return 0
    print("unknown obligation", spec["obligation"])
    return 2


def load_obligations(prop):
    import importlib
    if VERIF not in sys.path:
        sys.path.insert(0, VERIF)
    importlib.import_module(f"obligations.{prop}")


def _child(conn, prop, idx, seed):
    try:
        conn.send(_worker((prop, idx, seed)))
    finally:
        conn.close()


def _killed_result(o, why):
    return dict(id=o.id, prop=o.prop, status="inconclusive", reasons=[why], gating=o.gating, bounds=o.bounds,
                params=_jsonable(o.params), paths=0, decisions=0, aborted=0, flips={}, goals=0, goals_trivial=0,
                goal_cells=0, rungs={}, solver_queries=0, solver_s=0.0, validated=0, validation_samples=0,
                val_errors=[], failures=[], functions=[], wall_s=0.0, sample_pc=None, inputs=0, generic=o.generic,
                expect_fail=o.expect_fail)


def run_pool(prop, idxs, seed, jobs, verbose=False):
    """one forked process per obligation, at most `jobs` at a time, each under a hard deadline
    (a solver call that ignores its resource limit must not hang the check)"""
    ctx = mp.get_context("fork")
    pending = list(idxs)
    running = {}
    results = []

    def show(r):
        if verbose:
            print(f"  {r['status']:12s} {r['id']}  paths={r['paths']} goals={r['goals']} {r['wall_s']}s {r['reasons'][:1]}", flush=True)

    while pending or running:
        while pending and len(running) < max(1, jobs):
            i = pending.pop(0)
            o = REGISTRY[prop][i]
            parent, child = ctx.Pipe(duplex=False)
            pr = ctx.Process(target=_child, args=(child, prop, i, seed))
            pr.start()
            child.close()
            running[i] = (pr, parent, time.time() + o.wall_s * 1.25 + 120, o)
        done = []
        for i, (pr, conn, deadline, o) in running.items():
            if conn.poll(0.02):
                try:
                    r = conn.recv()
                except EOFError:
                    r = _killed_result(o, "worker died without a result")
                results.append(r)
                show(r)
                pr.join(5)
                done.append(i)
            elif not pr.is_alive():
                r = _killed_result(o, f"worker exited with code {pr.exitcode} without a result")
                results.append(r)
                show(r)
                done.append(i)
            elif time.time() > deadline:
                pr.kill()
                pr.join(5)
                r = _killed_result(o, f"hard deadline ({int(o.wall_s * 1.25 + 120)}s) exceeded: killed")
                results.append(r)
                show(r)
                done.append(i)
        for i in done:
            running.pop(i)
        if not done:
            time.sleep(0.05)
    return results


def main(argv=None):
    import argparse
    ap = argparse.ArgumentParser()
    ap.add_argument("prop", nargs="?")
    ap.add_argument("--tier", default=os.environ.get("VERIF_TIER", "quick"))
    ap.add_argument("--jobs", type=int, default=int(os.environ.get("VERIF_JOBS", "16")))
    ap.add_argument("--only", default=None, help="substring filter on obligation ids")
    ap.add_argument("--replay", default=None)
    ap.add_argument("--list", action="store_true")
    ap.add_argument("--no-evidence", action="store_true")
    ap.add_argument("-v", action="store_true")
    ap.add_argument("--dump", default=None, help="write every reproduced failure (with its input classes) to this JSON file")
    a = ap.parse_args(argv)
    if a.replay:
        return replay_file(a.replay)
    seed = int(os.environ.get("VERIF_SEED", "0"))
    prop = a.prop
    load_obligations(prop)
    obs = [(i, o) for i, o in enumerate(REGISTRY.get(prop, []))
           if (a.tier == "thorough" or o.tier == "quick") and (a.only is None or a.only in o.id)]
    if a.list:
        for _, o in obs:
            print(o.id, "|", o.tier, "|", o.bounds)
        return 0
    t0 = time.time()
    results = []
    import pyttb  # noqa: F401 -- import before forking
    results = run_pool(prop, [i for i, _ in obs], seed, a.jobs, a.v)
    results.sort(key=lambda r: r["id"])
    if a.dump:
        out = []
        for r in results:
            for f in r["failures"]:
                cls = sorted(c for c, cr in f["classes"].items() if cr["reproduced"])
                if cls:
                    any_cr = next(cr for cr in f["classes"].values() if cr["reproduced"])
                    out.append(dict(property=prop, obligation=r["id"], kind=any_cr["kind"], label=f["label"], site=any_cr["site"],
                                    classes=cls, paths=f["paths"], detail=any_cr["detail"][:200], example=any_cr["assignment"]))
        with open(a.dump, "w") as fh:
            json.dump(out, fh, indent=1)
    return report(prop, a.tier, seed, results, time.time() - t0, write=not a.no_evidence and a.only is None)


def report(prop, tier, seed, results, wall, write=True):
    known = load_known()
    violations = []
    knowns = []
    bad = []
    nrep = 0
    for r in results:
        if r["status"] in ("violated", "error") and r["failures"]:
            for f in r["failures"]:
                newcls = []
                matched = None
                for c, cr in f["classes"].items():
                    if not cr["reproduced"]:
                        continue
                    ff = dict(f, kind=cr["kind"], site=cr["site"], detail=cr["detail"])
                    k = match_known(known, prop, r["id"], ff, c, sum(1 for x in f["classes"].values() if x["reproduced"]))
                    if k is not None:
                        matched = k
                    else:
                        newcls.append((c, cr))
                if matched is not None:
                    knowns.append((r, f, matched))
                if newcls:
                    nrep += 1
                    c, cr = newcls[0]
                    ff = dict(f, assignment=cr["assignment"], kind=cr["kind"], site=cr["site"], detail=cr["detail"])
                    ff.pop("concrete", None)
                    violations.append((r, ff, write_replay(prop, r, ff, nrep), len(newcls)))
            if any(not cr["reproduced"] for f in r["failures"] for cr in f["classes"].values()) and r["gating"]:
                bad.append(r)
        elif r["status"] in ("inconclusive", "error") and r["gating"]:
            bad.append(r)
    for r, f, k in knowns:
        print(f"KNOWN-FINDING: property={prop} {r['id']} {f['kind']} {f.get('site','')} -- {k.get('what','')}")
    for n, (r, f, path, ncls) in enumerate(violations):
        if n == 25:
            print(f"   ... and {len(violations) - 25} more violated goals (replay files written; see evidence)")
            break
        print(f"VIOLATION property={prop} replay={path}")
        print(f"   obligation {r['id']}: {f['kind']} at '{f['label']}' {f.get('site','')}: {f['detail'][:300]} ({ncls} input class(es))")
    for r in bad:
        print(f"INCONCLUSIVE {r['id']}: {r['status']}: {'; '.join(str(x) for x in r['reasons'][:2])[:400]}")
        for f in r["failures"]:
            for c, cr in f["classes"].items():
                if not cr["reproduced"]:
                    print(f"   not reproduced: {f['kind']} at '{f['label']}' {f.get('site','')}: {cr['detail'][:300]} | {json.dumps(cr['assignment'])[:400]}")
                    break
    proved = sum(1 for r in results if r["status"] == "proved")
    gating = [r for r in results if r["gating"]]
    print(f"{prop} [{tier}] obligations={len(results)} proved={proved} violated={sum(1 for r in results if r['status']=='violated')} "
          f"inconclusive={sum(1 for r in results if r['status'] in ('inconclusive','error'))} "
          f"paths={sum(r['paths'] for r in results)} solver_queries={sum(r['solver_queries'] for r in results)} "
          f"solver_s={sum(r['solver_s'] for r in results):.1f} wall={wall:.1f}s")
    if write:
        write_evidence(prop, tier, seed, results, wall, len(violations), knowns)
    if violations:
        return 1
    if bad:
        return 2
    if not gating:
        print("no gating obligation ran")
        return 2
    return 0


def write_evidence(prop, tier, seed, results, wall, nviol, knowns):
    funcs = sorted({f for r in results for f in r["functions"]})
    samples = []
    for r in results[:400]:
        samples.append(dict(obligation=r["id"], status=r["status"], bounds=r["bounds"], paths=r["paths"],
                            decisions=r["decisions"], goals=r["goals"], goal_cells=r["goal_cells"],
                            solver_queries=r["solver_queries"], solver_s=r["solver_s"], wall_s=r["wall_s"],
                            sample_path_condition=r["sample_pc"], reasons=r["reasons"][:2],
                            failures=[dict(kind=f["kind"], label=f["label"], site=f.get("site", ""), reproduced=f["reproduced"],
                                           assignment=f["assignment"], input_classes=len(f["classes"])) for f in r["failures"][:3]]))
    rungs = {}
    for r in results:
        for k, v in (r["rungs"] or {}).items():
            rungs[k] = rungs.get(k, 0) + v
    ev = dict(
        property_id=prop, tier=tier, seed=seed, level="model_checking",
        coverage=dict(
            states=max(1, sum(r["paths"] for r in results)),
            transitions=max(1, sum(r["decisions"] for r in results)),
            traces_validated_against_impl=sum(r["validated"] for r in results),
            samples=samples,
            obligations=len(results),
            discharged=sum(1 for r in results if r["status"] == "proved"),
            inconclusive=[r["id"] for r in results if r["status"] in ("inconclusive", "error")],
            violated=[r["id"] for r in results if r["status"] == "violated"],
            known_findings_matched=[f"{r['id']} {f['kind']} {f.get('site','')}" for r, f, k in knowns],
            solver="z3 " + _z3ver(),
            solver_queries=sum(r["solver_queries"] for r in results),
            solver_s=round(sum(r["solver_s"] for r in results), 2),
            goals=sum(r["goals"] for r in results),
            goals_closed_by_term_identity=sum(r["goals_trivial"] for r in results),
            goal_cells=sum(r["goal_cells"] for r in results),
            ladder_rungs=rungs,
            branch_flips=dict(sat=sum(r["flips"].get("sat", 0) for r in results),
                              unsat=sum(r["flips"].get("unsat", 0) for r in results),
                              unknown=sum(r["flips"].get("unknown", 0) for r in results)),
            functions_encoded=funcs,
            exhaustive=False,
            explanation="bounded symbolic (concolic) execution of the unmodified pyttb source with z3 deciding every "
                        "branch side and every goal; 'states' = explored paths (each with a satisfying witness, i.e. "
                        "every assertion was reached non-vacuously), 'transitions' = branch/choice decisions.",
        ),
        assumptions=[
            "floats are modelled as exact reals (no rounding)",
            "bounds: only the shapes / orders / ranks / nnz / key forms listed per obligation",
            "stand-ins listed in DESIGN.md section 2.3 implement their documented contracts "
            "(validated on every run by pushing path witnesses through the unpatched code)",
        ],
        wall_s=round(wall, 2), violations=nviol,
    )
    os.makedirs(os.path.join(VERIF, "evidence"), exist_ok=True)
    with open(os.path.join(VERIF, "evidence", f"{prop}.json"), "w") as fh:
        json.dump(ev, fh, indent=1)


def _z3ver():
    import z3
    return z3.get_version_string()
