#!/bin/sh
# usage: tools/confirm_seed.sh <ID> <variant>   e.g. C01 a
# Confirms a candidate seeded change in a scratch worktree of /repo's HEAD (tests pass with it, demo fails with it
# and passes without it) and files it under /verif/seeded/<ID>-<variant>/.  Nothing is committed to /repo.
ID="$1"; V="$2"; SRC="/tmp/seed/$ID/$V"; WT="/tmp/wt/confirm_$ID$V"; DST="/verif/seeded/$ID-$V"
git -C /repo worktree add -q --detach "$WT" HEAD || exit 9
cd "$WT"
R_CLEAN=$(PYTHONPATH="$WT" /venv/bin/python "$SRC/demo.py" >/dev/null 2>&1; echo $?)
if ! git apply --check "$SRC/patch.diff" 2>/dev/null; then echo "$ID/$V: patch does not apply to HEAD"; git -C /repo worktree remove --force "$WT"; exit 8; fi
git apply "$SRC/patch.diff"
R_PATCH=$(PYTHONPATH="$WT" /venv/bin/python "$SRC/demo.py" >/dev/null 2>&1; echo $?)
T=$(PYTHONPATH="$WT" /venv/bin/python -m pytest -q -p no:cacheprovider 2>&1 | tail -1)
cd /; git -C /repo worktree remove --force "$WT"
echo "$ID/$V: demo clean rc=$R_CLEAN, demo patched rc=$R_PATCH, tests: $T"
case "$T" in *"208 passed"*) ;; *) echo "  -> REJECTED (tests)"; exit 1;; esac
if [ "$R_CLEAN" != "0" ] || [ "$R_PATCH" = "0" ]; then echo "  -> REJECTED (demo)"; exit 1; fi
mkdir -p "$DST"; cp "$SRC/patch.diff" "$SRC/demo.py" "$DST/"; cp "$SRC/notes.md" "$DST/notes.md" 2>/dev/null
echo "  -> confirmed, filed under $DST"
