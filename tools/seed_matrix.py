#!/usr/bin/env python3
"""Run every seeded change under /verif/seeded against the check of its property (quick tier, then thorough if the
quick tier misses it), write meta.json next to each patch and print the detection table.
/repo is patched with `git apply` and restored with `git checkout -- .` after each run; nothing is committed there."""
import json
import os
import re
import subprocess
import sys
import time

V = "/verif"
R = "/repo"


def sh(cmd, **kw):
    return subprocess.run(cmd, shell=True, capture_output=True, text=True, **kw)


def run_check(prop, tier):
    t = time.time()
    p = sh(f"cd {V} && timeout 3600 ./check.py {prop} --tier {tier} --no-evidence")
    out = p.stdout
    viol = [l for l in out.splitlines() if l.startswith("VIOLATION")]
    obl = sorted({re.sub(r"\[.*", "", l.split("obligation ")[1].split(":")[0]) for l in out.splitlines() if l.startswith("   obligation ")})
    return dict(rc=p.returncode, violations=len(viol), obligations=obl, wall_s=round(time.time() - t, 1), tail=out.strip().splitlines()[-1] if out.strip() else "")


def main():
    only = sys.argv[1:] or None
    rows = []
    for d in sorted(os.listdir(f"{V}/seeded")):
        if only and not any(d.startswith(o) for o in only):
            continue
        path = f"{V}/seeded/{d}"
        prop = d.split("-")[0]
        assert sh(f"git -C {R} diff --quiet").returncode == 0, "/repo not clean"
        if sh(f"git -C {R} apply --check {path}/patch.diff").returncode != 0:
            rows.append((d, "patch does not apply to the current /repo HEAD", "", ""))
            continue
        sh(f"git -C {R} apply {path}/patch.diff")
        try:
            q = run_check(prop, "quick")
            t = None
            if q["rc"] != 1:
                t = run_check(prop, "thorough")
        finally:
            sh(f"git -C {R} checkout -- .")
        notes = open(f"{path}/notes.md").read() if os.path.exists(f"{path}/notes.md") else ""
        needs = ""
        m = re.search(r"(?is)(what (is|it) needed|needs?|to manifest)[^\n]*\n(.{0,600})", notes)
        if m:
            needs = " ".join(m.group(0).split())[:500]
        meta = dict(
            property=prop, seed=d,
            breaks="see notes.md (written by the sub-agent that produced the change; it saw only the property text)",
            needs_to_manifest=needs,
            confirmed=dict(how="tools/confirm_seed.sh in a scratch worktree of /repo HEAD: 208 doctests pass with the patch; demo.py exits 0 without and 1 with the patch"),
            checked_with=dict(quick=q, thorough=t),
            detected=("quick" if q["rc"] == 1 else ("thorough" if t and t["rc"] == 1 else "no")),
            repo_head=sh(f"git -C {R} rev-parse --short HEAD").stdout.strip(),
        )
        json.dump(meta, open(f"{path}/meta.json", "w"), indent=1)
        rows.append((d, meta["detected"], ", ".join((q if q["rc"] == 1 else (t or q))["obligations"][:3]), f"{q['wall_s']}s"))
        print(rows[-1], flush=True)
    print("\n| seed | detected by | violated obligations (first 3) | quick wall |")
    print("|---|---|---|---|")
    for r in rows:
        print("| " + " | ".join(r) + " |")


if __name__ == "__main__":
    main()
