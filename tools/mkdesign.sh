#!/bin/sh
# Re-assemble the generated parts of DESIGN.md: the seed table of section 9 (from seeded/*/meta.json) and Appendix A
# (from the obligation registry).  The hand-written text lives in DESIGN.md itself between the markers.
cd "$(dirname "$0")/.."
.venv/bin/python - <<'PY'
import json, os, re, subprocess
s = open("DESIGN.md").read()
rows = ["| seed | change | needs | caught by (tier) | obligations reporting |", "|---|---|---|---|---|"]
for d in sorted(os.listdir("seeded")):
    mp = f"seeded/{d}/meta.json"
    title = open(f"seeded/{d}/notes.md").readline().strip("# \n")
    title = re.sub(r"^C\d\d\s*(/|seed)?\s*(change|seed)?\s*[ab]?\s*(--|—|-)+\s*", "", title)
    if os.path.exists(mp):
        m = json.load(open(mp))
        det = m.get("detected", "?")
        q = m["checked_with"]["quick"]; t = m["checked_with"].get("thorough")
        r = q if det == "quick" else (t or q)
        obl = ", ".join(o.split("/")[-1] for o in r.get("obligations", [])[:4])
        needs = re.sub(r"^(#+\s*)?What (is|it) needed( for it)?( to manifest)?\s*[-*:]*\s*", "", (m.get("needs_to_manifest") or ""), flags=re.I)[:170].replace("|", "/")
        rows.append(f"| {d} | {title} | {needs} | {'**missed**' if det == 'no' else det} ({r.get('wall_s','?')} s) | {obl} |")
    else:
        rows.append(f"| {d} | {title} | | not run | |")
table = "\n".join(rows)
s = re.sub(r"(<!-- SEEDTABLE -->\n).*?(<!-- /SEEDTABLE -->)", lambda m: m.group(1) + table + "\n" + m.group(2), s, flags=re.S)
app = subprocess.run([".venv/bin/python", "tools/mkappendix.py"], capture_output=True, text=True).stdout
s = re.sub(r"(<!-- APPENDIX -->\n).*?(<!-- /APPENDIX -->)", lambda m: m.group(1) + app + "\n" + m.group(2), s, flags=re.S)
open("DESIGN.md", "w").write(s)
print("DESIGN.md regenerated parts:", len(rows) - 2, "seeds,", app.count("\n| `"), "obligation families")
PY
