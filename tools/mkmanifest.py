#!/usr/bin/env python3
"""Regenerate MANIFEST.json from the table below (kept in one place so that it stays valid)."""
import json
import os

HERE = os.path.dirname(os.path.dirname(os.path.abspath(__file__)))

TECH = "bounded symbolic (concolic) execution of the unmodified pyttb source on symbolic reals/ints; z3 decides every branch side and every goal; counterexamples replayed on the unpatched code"

CHECKS = {
    "C01": ("conversions preserve the tensor: for every configuration in the bounds (shapes <= 8 cells / N <= 4(5), nnz <= 4 in every stored order, R <= 2, every ordered mode split) z3 proves den(result) == den(source) cell by cell for all real values and all sparsity patterns", "5 C01"),
    "C02": ("multilinear products equal their defining index sums for all operand values (dense / sparse / Kruskal / Tucker / sum holders, every subset of modes, both designations, transpose flag, both sides of the sparse/dense result switch)", "5 C02"),
    "C03": ("sparse element-wise + - * /, logic and comparisons equal the dense semantics (IEEE corners concrete per path) for all joint sparsity patterns / signs / ties of the bounded shapes and for operands stored in opposite orders", "5 C03"),
    "C04": ("one inductive step (arbitrary pre-state of the bounded shape, one read/write with a solver-enumerated key and symbolic right-hand side) plus length-2 histories incl. growth-then-overwrite: dense and sparse post-states equal the F-ordered growable-array model, invariant re-proved", "5 C04"),
    "C05": ("catalogue of ~150 public operations: on every path the operands are proved cell-for-cell unchanged and the result shares no memory with them (memory fact + in-place write observation); documented in-place methods change only the receiver", "5 C05"),
    "C06": ("well-formedness monitor on every sparse result + every stored order of the operands compared with one order-free reference", "5 C06"),
    "C07": ("permute / reshape / squeeze equal the index formulas for all N! orders and all factorizations, on dense, sparse, Kruskal and Tucker holders; inverse round trips", "5 C07"),
    "C08": ("Kruskal re-parameterisations: den(after) == den(before) for all weights / factors (zero columns, negative weights by forks) and the normal form proved through sqrt / N-th-root definitions", "5 C08"),
    "C09": ("CP-ALS sweeps with the linear solve as an opaque stub: for every solver answer z3 proves that the system of mode n is (Hadamard of the other Grams) Z = MTTKRP_n of the current factors, that the stored factor is Z^T over the reported weights, the residual/fit identities, normal form, iteration count, returned guess; complete one-sweep runs on 2x2 / 2x3 rank 1", "5 C09"),
    "C10": ("hosvd / tucker_als around the eigen-solver (contract stub or real solver on concrete data with symbolic tolerance): rank choice vs eigenvalue tail sums, explicit ranks honoured, sizes, core == data contracted with transposed factors, fit identity, guess / data untouched", "5 C10"),
    "C11": ("CP-APR kernels for all non-negative data / positive models of the bounded shapes: Pi and Phi (dense branch == sparse branch == definition, both sides of the max(., eps) switch) and the log-likelihood with an opaque logarithm (argument == model value at the data entry); whole MU / PDNR / PQNR runs (1-2 outer iterations) on concrete data with a symbolic stopping tolerance: non-negativity, KKT bookkeeping, truthful objective, not worse than the start, operands untouched; runs with symbolic data only for MU in the thorough tier (non-gating)", "5 C11"),
    "C13": ("stochastic GCP solve loop with the estimator stubbed by fresh symbols: best-so-far model returned, rollback on failed epochs, stopping, trace lengths, bounds clipping, reuse of one optimizer object == fresh object; samplers: symbolic draws map to valid subscripts / stored entries with the documented weights; L-BFGS-B wrapper around an opaque scipy stub", "5 C13"),
    "C14": ("nvecs on dense / sparse / Kruskal / Tucker holders with the eigen-solver as a contract stub: the matrix handed over is the mode-n Gram matrix of the denoted array, solver switch, r leading eigenvector columns in decreasing order of magnitude, sign convention", "5 C14"),
    "C16": ("export then import on symbolic elements with token stand-ins for ndarray.tofile / numpy.fromfile (ordering logic is the real code): dense N<=4(5), sparse in every stored order with both index bases, Kruskal, matrices; precision lemma on the format constants read from the current source", "5 C16"),
    "C18": ("relations between two bounded runs: CP-ALS dense vs sparse (same systems handed to the solver, same model), data scaled by symbolic c > 0, consistent mode relabelling, printing on/off for CP-ALS / HOSVD / Tucker-ALS / CP-APR MU (two outer iterations, one symbolic input, canonical rational functions), CP-APR MU dense vs sparse; CP-APR PDNR / MU dense vs sparse for every stopping tolerance (symbolic stoptol, concrete data with empty slices); PDNR/PQNR with symbolic data (non-gating attempt), GCP and seeds not claimed", "5 C18"),
    "C12": ("loss vs gradient through dual numbers over the real handles for all data / model / parameter values; evaluate() and estimate() against an uninterpreted loss pair (so for every loss): objective, exact partial derivatives, all-modes vs one-mode MTTKRP", "5 C12"),
    "C15": ("symmetrize == average over within-group permutations, result passes the test, idempotence, symmetric input kept; issymmetric exact on every path (invariance proved / refuted under the path condition); both versions; Kruskal variant", "5 C15"),
    "C17": ("index arithmetic with symbolic integer subscripts (LIA), mode-selection preprocessing, row-set helpers and Khatri-Rao against their definitions", "5 C17"),
    "C19": ("windows of solver-enumerated integer arguments around the valid range + catalogues of inconsistent components: every ill-formed instance raises and leaves the receiver unchanged, every well-formed one is answered", "5 C19"),
    "C20": ("generators: exact shape and entries with symbolic providers; RNG as a symbolic stub (every draw outcome of the retry loop explored through equality forks); aggregator with arbitrary multiplicities and reducers", "5 C20"),
}

NA = {}


def main():
    props = [json.loads(l) for l in open(os.path.join(HERE, "properties.jsonl"))]
    checks = []
    for p in props:
        pid = p["id"]
        if pid in CHECKS:
            text, ref = CHECKS[pid]
            checks.append(dict(
                property_id=pid,
                quick_cmd=f"./check.py {pid} --tier quick",
                thorough_cmd=f"./check.py {pid} --tier thorough",
                evidence_file=f"evidence/{pid}.json",
                replay_cmd_template="./check.py --replay {path}",
                engine="symx",
                level_claimed=dict(category="model_checking", text=text, design_ref=f"DESIGN.md section {ref}"),
                level_note="floats modelled as exact reals; bounds as listed per obligation in the evidence; stand-ins for NumPy C loops / "
                           "numpy_groupies / scipy.sparse / LAPACK / RNG implement their documented contracts and are validated on every run "
                           "by pushing path witnesses through the unpatched code; z3 5.1 is trusted",
                technique=TECH,
            ))
    na = []
    for p in props:
        if p["id"] not in CHECKS:
            na.append(dict(property_id=p["id"], reason=NA.get(p["id"], "check not built yet in this revision (planned, see DESIGN.md section 5)")))
    man = dict(
        version=1,
        setup_cmd="./setup.sh",
        hooks=dict(guard="SANDIALABS_PYTTB_VERIF", enable="none needed: checks patch module globals of the imported pyttb modules in their own process",
                   baseline_off_cmd="cd /repo && /venv/bin/python -m pytest -ra -q -p no:cacheprovider --timeout=900 --continue-on-collection-errors",
                   source_commits=[], add_only=True),
        engines=[dict(name="symx", path="symx/", serves_properties=sorted(CHECKS),
                      kind_free_text="concolic symbolic execution of the real Python/NumPy code on object arrays of symbolic scalars, z3 as the deciding solver")],
        checks=checks,
        notes="exit 0: every gating obligation proved or matched to a listed known finding; exit 1 + VIOLATION line: replayed counterexample; "
              "exit 2: inconclusive / harness error (never expected on the unchanged tree)",
        not_applicable=na,
    )
    with open(os.path.join(HERE, "MANIFEST.json"), "w") as fh:
        json.dump(man, fh, indent=1)
    print("MANIFEST.json:", len(checks), "checks,", len(na), "not claimed")


if __name__ == "__main__":
    main()
