#!/usr/bin/env python3
"""Turn a failure dump (check.py <prop> --dump f.json, run on the UNCHANGED tree and triaged by hand) into
known_findings.jsonl entries.  Manual tool: the checks never write that file.

usage: tools/mkknown.py dump.json [dump2.json ...]   (prints entries; review, then append to known_findings.jsonl)
Root causes are attached by the table below (first matching rule); an entry without a rule is printed with
what='UNTRIAGED' and must not be committed."""
import json
import re
import sys

RULES = [
    (r"C0[36]", r"op=div,rhs=sparse|binop_orders\[op=div", r"exception:IndexError|div\(sparse\)",
     "sptensor / sptensor indexes SelfZeroSubs / OtherZeroSubs with positions computed for self.subs / other.subs (wrong array): IndexError when an operand stores fewer entries than the index"),
    (r"C0[36]", r"op=div,rhs=sparse|binop_orders\[op=div", r"distinct subscripts",
     "sptensor / sptensor: the same wrong-array indexing reports a subscript twice"),
    (r"C0[36]", r"op=div,rhs=sparse|binop_orders\[op=div", r"integer subscripts",
     "sptensor / sptensor stacks the subscripts on a float placeholder: float64 subscripts"),
    (r"C0[36]", r"op=div,rhs=sparse|binop_orders\[op=div", r"no explicit zero stored",
     "sptensor / sptensor stores an explicit 0 for 0 / y"),
    (r"C0[36]", r"op=div,rhs=sparse|binop_orders\[op=div", r"sptensor div sparse$",
     "sptensor / sptensor: x / 0 is stored as NaN (IEEE: signed infinity), values paired by stored position, wrong cells from the wrong-array indexing"),
    (r"C0[36]", r"op=div,rhs=dense", r"exception:TypeError|div\(dense\)",
     "sptensor / tensor with exactly one stored entry: indexing the dense operand with one subscript row returns a scalar (TypeError)"),
    (r"C0[36]", r"op=div,rhs=dense", r"sptensor div dense$",
     "sptensor / tensor only divides the stored entries: positions where both operands are zero hold 0 instead of NaN (0/0)"),
    # (property regex, obligation regex, label/site regex, what)
    ("C20", r"sparse_random", r"requested number of distinct nonzeros",
     "sptensor.from_function gives up after 10 rounds of redrawing ALL subscripts: when every round collides it returns fewer nonzeros than requested (sptenrand((2,2), nonzeros=3) does so about once in 30 calls)"),
]


def what_for(e):
    for pr, ob, lab, what in RULES:
        if re.search(pr, e["property"]) and re.search(ob, e["obligation"]) and (re.search(lab, e["label"]) or re.search(lab, e["kind"])):
            return what
    return "UNTRIAGED"


def main():
    for path in sys.argv[1:]:
        for e in json.load(open(path)):
            out = dict(status="known", property=e["property"], obligation=e["obligation"], kind=e["kind"], label=e["label"],
                       site=e.get("site", ""), classes=None, max_paths=e["paths"], what=what_for(e), example=e["example"])
            print(json.dumps(out, sort_keys=False))


if __name__ == "__main__":
    if len(sys.argv) > 1 and sys.argv[1] == "--rules":
        sys.argv.pop(1)
        extra = json.load(open(sys.argv.pop(1)))
        RULES[:0] = [tuple(r) for r in extra]
    main()
