#!/usr/bin/env python3
"""Turn a failure dump (check.py <prop> --dump f.json, run on the UNCHANGED tree and triaged by hand) into
known_findings.jsonl entries.  Manual tool: the checks never write that file.

usage: tools/mkknown.py dump.json [dump2.json ...]   (prints entries; review, then append to known_findings.jsonl)
Root causes are attached by the table below (first matching rule); an entry without a rule is printed with
what='UNTRIAGED' and must not be committed."""
import json
import re
import sys

RULES = [
    # (property regex, obligation regex, label/site regex, what)
    ("C20", r"sparse_random", r"requested number of distinct nonzeros",
     "sptensor.from_function gives up after 10 rounds of redrawing ALL subscripts: when every round collides it returns fewer nonzeros than requested (sptenrand((2,2), nonzeros=3) does so about once in 30 calls)"),
]


def what_for(e):
    for pr, ob, lab, what in RULES:
        if re.search(pr, e["property"]) and re.search(ob, e["obligation"]) and (re.search(lab, e["label"]) or re.search(lab, e.get("site", ""))):
            return what
    return "UNTRIAGED"


def main():
    for path in sys.argv[1:]:
        for e in json.load(open(path)):
            out = dict(status="known", property=e["property"], obligation=e["obligation"], kind=e["kind"], label=e["label"],
                       site=e.get("site", ""), classes=e["classes"], what=what_for(e), example=e["example"])
            print(json.dumps(out, sort_keys=False))


if __name__ == "__main__":
    if len(sys.argv) > 1 and sys.argv[1] == "--rules":
        sys.argv.pop(1)
        extra = json.load(open(sys.argv.pop(1)))
        RULES[:0] = [tuple(r) for r in extra]
    main()
