#!/usr/bin/env python3
"""Print the 'Appendix A' table of DESIGN.md (obligation families, what each proves, bounds, number of configurations
per tier) from the obligation registry.  Run inside the overlay venv: .venv/bin/python tools/mkappendix.py"""
import collections
import os
import sys

sys.path.insert(0, os.path.dirname(os.path.dirname(os.path.abspath(__file__))))
from symx import runner  # noqa: E402


def main():
    for n in range(1, 21):
        prop = f"C{n:02d}"
        runner.load_obligations(prop)
        fam = collections.OrderedDict()
        for o in runner.REGISTRY.get(prop, []):
            f = fam.setdefault(o.name, dict(q=0, t=0, o=o, ng=0))
            f["q" if o.tier == "quick" else "t"] += 1
            f["ng"] += 0 if o.gating else 1
        print(f"\n**{prop}**\n")
        print("| obligation family | proves (for every path of every configuration) | bounds | configs quick / thorough-only |")
        print("|---|---|---|---|")
        for name, f in fam.items():
            o = f["o"]
            doc = " ".join((o.body.__doc__ or "").split())
            flags = []
            if f["ng"]:
                flags.append(f"{f['ng']} non-gating")
            if o.env_stub:
                flags.append("environment stub")
            if not o.validate:
                flags.append("no witness validation")
            extra = f" ({'; '.join(flags)})" if flags else ""
            print(f"| `{name}` | {doc} | {' '.join(o.bounds.split())}{extra} | {f['q']} / {f['t']} |")


if __name__ == "__main__":
    main()
