#!/bin/sh
# usage: tools/try_seed.sh <patch.diff> <property> [tier] [extra check args]
# applies a seeded change to /repo, runs the check, restores /repo.  Never commits.
P="$1"; ID="$2"; TIER="${3:-quick}"; shift 3 2>/dev/null
cd /repo || exit 9
if ! git diff --quiet; then echo "/repo not clean"; exit 9; fi
if ! git apply --check "$P" 2>/dev/null; then echo "PATCH DOES NOT APPLY: $P"; exit 8; fi
git apply "$P"
cd /verif
timeout 3000 ./check.py "$ID" --tier "$TIER" --no-evidence "$@" > /tmp/try_seed.out 2>&1
RC=$?
git -C /repo checkout -- .
echo "rc=$RC  $(grep -c '^VIOLATION' /tmp/try_seed.out) violation lines; $(tail -1 /tmp/try_seed.out)"
grep -A1 '^VIOLATION' /tmp/try_seed.out | grep obligation | cut -c1-260 | head -5
grep '^INCONCL' /tmp/try_seed.out | head -3 | cut -c1-300
exit $RC
